"""Script families for the Client::handle obligations (shared by C01, C02, C03, C04, C16, C19).

One *case* = one client script (messages with symbolic bytes where pgcat or the reference backend looks at them), one way
the client stops (Terminate, EOF at a message boundary, EOF inside the last message), one pool configuration.  The real
`Client::handle` coroutine is executed from MIR against reference backends; the reference model (`handle_env.judge`) is
evaluated on every path; a candidate violation is concretised with the solver's model and replayed through the native
probe `handle_script` (real sockets, real bb8, the same reference backend in Rust) before it is reported.
"""
import os, sys, re, itertools, struct
sys.path.insert(0, os.path.dirname(os.path.dirname(os.path.abspath(__file__))))
import z3
from harness.common import expectation
from checks.serverfam import *
from mirsym.models.util import ok, err
from checks import handle_env as HE
from checks.handle_env import msg, Q, P, B, D, E, C, S, H, X


# ----------------------------------------------------------------------------------------------- message templates
class Sym:
    """A message template: concrete bytes with symbolic holes.  holes: {offset: (name, constraint or None)}."""
    def __init__(self, label, raw, holes=()):
        self.label = label
        self.raw = raw
        self.holes = dict(holes)

    def build(self, ip, k):
        out = []
        for i, b in enumerate(self.raw):
            if i in self.holes:
                nm, cons = self.holes[i]
                v = ip.fresh(8, 'm%d_%s' % (k, nm))
                if isinstance(cons, (bytes, str)):
                    # an enumerated class split decided up front: one of the listed values, or "any other byte"
                    for ch in (cons.encode() if isinstance(cons, str) else cons):
                        if decide(ip, v.z() == ch):
                            v = BV(8, ch)
                            break
                elif cons is not None:
                    ip.assume(cons(v.z()))
                out.append(v)
            else:
                out.append(BV(8, b))
        return out


def conc_msg(label, raw):
    return Sym(label, raw)


SIMPLE = {
    'begin': Q('BEGIN'), 'select': Q('SELECT 1'), 'commit': Q('COMMIT'), 'rollback': Q('ROLLBACK'), 'error': Q('SELECT 1/0'),
    'set': Q('SET statement_timeout TO 5'), 'setrole': Q('SET ROLE r'), 'prepare': Q('PREPARE p AS SELECT 1'),
    'setlocal': Q('SET LOCAL x TO 1'), 'copyin': Q('COPY t FROM STDIN'), 'copyout': Q('COPY t TO STDOUT'), 'empty': Q(';'),
    'select2': Q('SELECT 2'), 'qt1': Q('SELECT * FROM t1'), 'qt2': Q('SELECT * FROM t2'), 'd': msg('d', b'1\n'), 'c': msg('c'), 'f': msg('f', b'stop\0'), 'multi': Q('BEGIN; SELECT 1'), 'sync': S, 'flush': H,
}


def ascii_or_nul(v):
    return z3.ULT(v, 0x7f)


def sym_parse(two=True):
    # name = n0 n1 NUL (either may itself be NUL: shorter name / unnamed), then the query
    raw = msg('P', b'ab\0SELECT 1\0\0\0')
    return Sym('P?', raw, {5: ('pn0', ascii_or_nul), 6: ('pn1', ascii_or_nul)})


def sym_bind():
    raw = B('', 'ab')
    # portal "" NUL, statement name at offsets 6,7
    return Sym('B?', raw, {6: ('bn0', ascii_or_nul), 7: ('bn1', ascii_or_nul)})


def sym_describe():
    raw = D('S', 'ab')
    return Sym('D?', raw, {5: ('dk', None), 6: ('dn0', ascii_or_nul), 7: ('dn1', ascii_or_nul)})


def sym_close():
    raw = C('S', 'ab')
    return Sym('C?', raw, {5: ('ck', None), 6: ('cn0', ascii_or_nul), 7: ('cn1', ascii_or_nul)})


def sym_code(body=b''):
    raw = msg('?', body)
    return Sym('??', raw, {0: ('code', 'QPBDECHSXdcf')})


EXT = {'P?': sym_parse, 'B?': sym_bind, 'D?': sym_describe, 'C?': sym_close, 'E': lambda: conc_msg('E', E()),
       'P': lambda: conc_msg('P', P('', 'SELECT 1')), 'P2': lambda: conc_msg('P2', P('', 'SELECT 2')),
       'Pt1': lambda: conc_msg('Pt1', P('', 'SELECT * FROM t1')), 'Pt2': lambda: conc_msg('Pt2', P('', 'SELECT * FROM t2')), 'Ps': lambda: conc_msg('Ps', P('s1', 'SELECT 1')), 'Bs': lambda: conc_msg('Bs', B('', 's1')),
       'B': lambda: conc_msg('B', B('', '')), 'Cs': lambda: conc_msg('Cs', C('S', 's1')), 'Ds': lambda: conc_msg('Ds', D('S', 's1')),
       'S': lambda: conc_msg('S', S), 'H': lambda: conc_msg('H', H), 'X': lambda: conc_msg('X', X)}


def tmpl(name):
    if name in SIMPLE:
        return conc_msg(name, SIMPLE[name])
    if name in EXT:
        return EXT[name]()
    if name.startswith('raw:'):
        return conc_msg(name, bytes.fromhex(name[4:]))
    if name.startswith('code:'):
        return sym_code(bytes.fromhex(name[5:]))
    raise KeyError(name)


# ----------------------------------------------------------------------------------------------- one case
class Case:
    def __init__(self, names, stop='eof', cut=None, mode='transaction', cache=0, roles=(0,), paused=None, sym_status=False, plugins=False):
        self.names = list(names)
        self.stop = stop              # 'eof' | 'X'
        self.cut = cut                # None or number of bytes of the LAST message delivered before EOF
        self.mode = mode
        self.cache = cache
        self.roles = tuple(roles)     # Role discriminants of the backends
        self.paused = paused          # None | 'start' | ('after', k): PAUSE arrives while the client is idle before message k
        self.sym_status = sym_status
        self.plugins = plugins        # query parser on; the plugin verdict for every parsed statement is symbolic (allow / deny / intercept)

    def label(self):
        s = '+'.join(self.names) + ('|X' if self.stop == 'X' else '|eof') + ('' if self.cut is None else '@%d' % self.cut)
        s += '' if self.mode == 'transaction' else '/session'
        s += '/cache' if self.cache else ''
        s += '' if len(self.roles) == 1 else '/%dbackends' % len(self.roles)
        s += '/symstatus' if self.sym_status else ''
        s += '' if self.paused is None else '/paused:%s' % (self.paused,)
        s += ('/plugins' if self.plugins is True else '/plugins:%s' % self.plugins) if self.plugins else ''
        return s


def run_case(chk, ob, ip, prog, case, props, extra_judge=None):
    """Execute one case on every path; report violations of the properties in `props`."""
    def harness(ip_):
        msgs = [tmpl(n).build(ip_, k) for k, n in enumerate(case.names)]
        if case.stop == 'X':
            msgs.append([BV(8, b) for b in X])
        sent = [b for m in msgs for b in m]
        complete = list(msgs)
        if case.cut is not None and msgs:
            last = msgs[-1]
            sent = sent[:len(sent) - len(last) + min(case.cut, len(last) - 1)]
            complete = msgs[:-1]
        bks = [HE.Backend(ip_, prog, i, r, sym_status=case.sym_status) for i, r in enumerate(case.roles)]
        client_over = {}
        pool_over = {}
        if case.mode == 'session':
            client_over['transaction_mode'] = BV(1, 0)
        if case.cache:
            client_over['prepared_statements_enabled'] = BV(1, 1)
            for b in bks:
                setf(prog, b.server, 'Server', 'prepared_statement_cache', some(ip_, lru([], case.cache)))
            pool_over['prepared_statement_cache'] = some(ip_, Ptr(Cell(Agg([mk_struct(prog, 'PreparedStatementCache', cache=lru([], case.cache))], 'Lock'), 'pscache')))
        pend, on_pending = (), None
        if isinstance(case.paused, tuple):
            k = case.paused[1]
            pend = (sum(len(m) for m in msgs[:k]),)

            resume_after = len(case.paused) > 2

            def on_pending(env, n):
                # the client is idle in its read: PAUSE arrives now, then the client's next bytes
                if n == 0:
                    env.set_paused(True)
                    return True
                if n == 1 and resume_after:
                    env.resume()
                    return True
                return False
        elif case.paused == 'start-resume':
            def on_pending(env, n):
                if n == 0:
                    env.resume()
                    return True
                return False
        settings_over = {}
        if case.plugins:
            settings_over['query_parser_enabled'] = BV(1, 1)
        env = HE.HandleEnv(ip_, prog, bks, sent, client_over=client_over, pool_over=pool_over, paused=(case.paused in ('start', 'start-resume')),
                           pending_at=pend, on_pending=on_pending, settings_over=settings_over)
        verdicts = {}
        if case.plugins:
            env.plugin_verdicts = case.plugins
            install_plugin_stubs(ip_, env, msgs, verdicts)
        try:
            env.run()
        except Inconclusive:
            raise
        ob.nontrivial += 1
        data = HE.collect(env)
        if os.environ.get('HDEBUG'):
            for r in data['reqs']:
                print('  REQ', r['g'], r['backend'], HE.show(r['bytes']), [HE.show(d) for d in r['delivered']])
            print('  OUT', HE.show(data['client_out']))
            print('  EVENTS', data['events'], data['outcome'])
        dec = HE.Decider(ip_)
        inc = case.paused is not None and not (case.paused == 'start-resume' or (isinstance(case.paused, tuple) and len(case.paused) > 2))
        denied = None
        eff = complete
        if case.plugins:
            eff, denied_msgs = effective_script(complete, verdicts)

            def denied(m):
                return any(HE.same_bytes(dec, m, dm) for dm in denied_msgs)
        V = HE.judge(data, eff, dec, cache_on=bool(case.cache), expect_incomplete=inc, denied=denied, allow_pooler_replies=case.plugins)
        if extra_judge:
            V += extra_judge(env, data, complete, dec)
        if case.paused is not None and not inc:
            # RESUME releases every held client: after it, the session must run to its end
            if data['outcome'][0] == 'pending' or any(k == 'H/request-not-forwarded' for _p, k, _t in V):
                V.append(('C16', 'H/held-after-resume', 'the client is still held (or its request was dropped) after RESUME'))
        for prop, key, text in V:
            if prop not in props:
                continue
            m = ip_.model_for()
            hexs = bytes(model_byte(m, b) for b in sent).hex()
            cmd = {'op': 'handle_script', 'client_hex': hexs, 'eof': True, 'mode': case.mode, 'cache': case.cache,
                   'roles': ['primary' if r == 0 else 'replica' for r in case.roles]}
            if case.sym_status:
                cmd['statuses'] = [model_byte(m, r['status_after']) for r in data['reqs'] if r['bytes'][0].concrete and r['bytes'][0].v == ord('Q')
                                   and r.get('status_after') is not None]
            if case.plugins:
                # the witness verdicts become a real plugin configuration: table_access on the tables of denied statements,
                # intercept rules for the intercepted ones
                deny, icpt = [], []
                for k, vd in verdicts.items():
                    t = re.search(rb'FROM (t\d)', HE.conc(msgs[k]) or b'')
                    if t and vd == 1:
                        deny.append(t.group(1).decode())
                    elif t and vd == 2:
                        icpt.append('select * from ' + t.group(1).decode())
                cmd['deny_tables'] = sorted(set(deny))
                if icpt:
                    cmd['intercept'] = sorted(set(icpt))
            if case.paused is not None:
                k = 0 if isinstance(case.paused, str) else case.paused[1]
                cut = sum(len(mm) for mm in msgs[:k])
                steps = []
                if cut:
                    steps.append({'send_hex': hexs[:2 * cut]})
                steps += [{'pause': True}, {'send_hex': hexs[2 * cut:]}]
                if not inc:
                    steps.append({'resume': True})
                cmd['steps'] = steps
                cmd['eof'] = False
            n_before = None
            if case.paused is not None:
                k = 0 if isinstance(case.paused, str) else case.paused[1]
                n_before = len(HE.default_forward(msgs[:k]))
            chk.report(ob, '%s/%s' % (prop, key), '%s [script %s]' % (text, case.label()),
                       {'script': case.label(), 'client_bytes_hex': hexs, 'outcome': list(data['outcome'])},
                       {'commands': [cmd], 'expect': ['h_violation', prop, key, bool(case.cache), inc, hexs, n_before,
                                                      [bytes(model_byte(m, b) for b in dm).hex() for dm in (denied_msgs if case.plugins else [])],
                                                      [bytes(model_byte(m, b) for mm in eff for b in mm).hex()] if case.plugins else None]})
        if len(ob.samples) < 2:
            ob.samples.append({'script': case.label(), 'outcome': str(data['outcome']), 'events': [str(e) for e in env.events][:8]})
    ip.explore(harness, max_paths=4000)


INTERCEPT_REPLY = msg('C', b'INTERCEPTED\0') + msg('Z', b'I')


def install_plugin_stubs(ip, env, msgs, verdicts):
    """The SQL parser and the plugins themselves are decided elsewhere (C05, C19 O1): here `QueryRouter::parse` yields an opaque
    statement list per client message, `execute_plugins` a SYMBOLIC verdict per parsed message (allow / deny / intercept), and
    `infer` leaves the routing state alone.  What is decided is the enforcement in Client::handle."""
    def m_parse(c, qr, mp):
        body = list(items(c.ip, mp))
        for k, m in enumerate(msgs):
            if len(m) == len(body) and all((a.concrete and b.concrete and a.v == b.v) or (a is b) for a, b in zip(m, body)):
                return ok(c.ip, Seq([Opaque('Statement', 'stmt', k)], 'vec'))
        return err(c.ip, c.ip.make_enum('Error', 'QueryRouterParserError', [rstring('unparsable')]))

    def m_plugins(c, qr, astp):
        ast = deref(c.ip, astp)
        k = ast.items[0].data
        if k not in verdicts:
            v = c.ip.fresh(8, 'verdict%d' % k)
            for val in ((0, 1) if env.plugin_verdicts == 'deny-only' else (0, 1, 2)):
                if decide(c.ip, v.z() == val):
                    verdicts[k] = val
                    break
            else:
                c.ip.assume(False)
        vd = verdicts[k]
        if vd == 0:
            out = c.ip.make_enum('PluginOutput', 'Allow')
        elif vd == 1:
            out = c.ip.make_enum('PluginOutput', 'Deny', [rstring('denied by plugin')])
        else:
            out = c.ip.make_enum('PluginOutput', 'Intercept', [Seq([BV(8, b) for b in INTERCEPT_REPLY], 'bytesmut')])
        return Opaque('HookFuture', 'ready', ok(c.ip, out))
    ip.overrides.append((re.compile(r'^(?:query_router::)?QueryRouter::parse$'), m_parse))
    ip.overrides.append((re.compile(r'^(?:query_router::)?QueryRouter::execute_plugins$'), m_plugins))
    ip.overrides.append((re.compile(r'^(?:query_router::)?QueryRouter::infer$'), lambda c, qr, ast: ok(c.ip, unit())))


def effective_script(script, verdicts):
    """Reference: a simple query whose verdict is deny/intercept is never forwarded; an extended batch containing a Parse whose
    verdict is deny/intercept is dropped as a whole when its Sync or Flush arrives."""
    eff, denied = [], []
    batch, batch_bad = [], False
    def first_same(k):
        # plugins are functions of the statement: identical messages share one verdict (keyed by the first occurrence)
        for j in range(k):
            a, b = script[j], script[k]
            if len(a) == len(b) and all((x.concrete and y.concrete and x.v == y.v) or (x is y) for x, y in zip(a, b)):
                return j
        return k
    for k, m in enumerate(script):
        c = HE.code_of(m)
        bad = verdicts.get(first_same(k), 0) != 0
        if c == 'Q':
            (denied if bad else eff).append(m)
        elif c in 'PBDEC':
            batch.append(m)
            if c == 'P' and bad:
                batch_bad = True
                denied.append(m)
        elif c in 'SH':
            if not batch_bad:
                eff += batch + [m]
            batch, batch_bad = [], False
        else:
            eff.append(m)
    if not batch_bad:
        eff += batch
    return eff, denied


def model_byte(m, b):
    if b.concrete:
        return b.v
    if m is None:
        return 0
    v = m.eval(b.z(), model_completion=True)
    return v.as_long()


@expectation('h_violation')
def h_violation(prop, key, cache_on, incomplete, hexs, n_before=None, denied_hex=(), eff_hex=None):
    """Native confirmation: the same reference model, evaluated on what the Rust reference backends and the two client
    sockets observed when the concrete script was played against the compiled pgcat."""
    def f(res):
        r = res[0]
        if 'error' in r or 'panic' in r:
            return False, 'native: %r' % (r,)
        data = HE.collect_native(r)
        complete, _rest = HE.split_messages(HE.bvs(eff_hex[0] if eff_hex else hexs), 'client script')
        dmsgs = [HE.bvs(h) for h in (denied_hex or ())]
        dec = HE.Decider(None)
        V = HE.judge(data, complete, dec, cache_on=cache_on, expect_incomplete=incomplete,
                     denied=(lambda mm: any(HE.same_bytes(dec, mm, dm) for dm in dmsgs)) if dmsgs else None, allow_pooler_replies=bool(eff_hex))
        hit = [v for v in V if v[0] == prop and v[1] == key]
        if prop == 'C16' and key == 'H/checkout-while-paused':
            # natively the pause gate is observed as: a request sent after PAUSE reaches a backend while the pool is still paused
            n = sum(1 for rq in data['reqs'] if rq.get('origin') == 'client')
            hit = [1] if (r.get('paused_at_end') and n > (n_before or 0)) else []
        if prop == 'C16' and key == 'H/held-after-resume':
            hit = [1] if (r.get('a_result') == 'still-running' or any(v[1] == 'H/request-not-forwarded' for v in V)) else []
        return (bool(hit), 'native run: a_result=%s, client-originated requests seen by backends=%d, violations=%s' %
                (r.get('a_result'), sum(1 for rq in data['reqs'] if rq.get('origin') == 'client'), sorted(set((v[0], v[1]) for v in V))))
    return f
