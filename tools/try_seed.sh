#!/bin/bash
# usage: try_seed.sh <patch.diff> <PROP> [tier]   -- apply to /repo, run the check, always revert
P="$1"; ID="$2"; T="${3:-quick}"
cd /repo || exit 9
if ! git apply --check "$P" 2>/dev/null; then echo "PATCH DOES NOT APPLY: $P"; exit 9; fi
git apply "$P"
cd /verif
timeout ${SEED_TIMEOUT:-1800} ./check "$ID" --tier "$T" > /tmp/seedrun_$ID.log 2>&1
rc=$?
git -C /repo checkout -- . 
echo "rc=$rc"
grep -E "^VIOLATION|^KNOWN|^INCONCLUSIVE|^OK|what:" /tmp/seedrun_$ID.log | head -12
