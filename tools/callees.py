#!/usr/bin/env python3-vt
"""List the transitive callees of an entry function: which resolve to MIR, which hit a model,
which are unknown.  Development aid (also used to report `functions encoded`)."""
import sys, re, os
sys.path.insert(0, os.path.dirname(os.path.dirname(os.path.abspath(__file__))))
from mirsym.build import load_program
from mirsym import mirparse as P
from mirsym.interp import Interp, MODELS, short
import mirsym.models  # noqa


def main():
    prog = load_program('on')
    entry = sys.argv[1]
    cands = prog.lookup(entry) or [f for n, f in prog.funcs.items() if entry in n]
    ip = Interp(prog)
    seen = {}
    unknown = {}
    modeled = {}
    work = list(cands)
    while work:
        fn = work.pop()
        if fn.name in seen:
            continue
        seen[fn.name] = fn
        for k, f in prog.closures.get(fn.name, {}).items():
            work.append(f)
        for bb, (st, term, cl) in fn.blocks.items():
            if cl or term is None:
                continue
            try:
                t = P.parse_terminator(term)
            except Exception:
                continue
            if t[0] != 'call':
                continue
            callee = t[2]
            if callee.startswith('move _') or callee.startswith('copy _'):
                continue
            h, m = ip.find_model(callee)
            if h is not None:
                modeled.setdefault(h.__name__, set()).add(callee)
                continue
            c = prog.lookup(callee)
            if c:
                work.extend(c)
            else:
                unknown.setdefault(callee, []).append(short(fn.name))
    print("== MIR functions (%d)" % len(seen))
    for n in sorted(seen):
        print("  ", short(n), len(seen[n].blocks))
    print("== modelled (%d)" % sum(len(v) for v in modeled.values()))
    if '-v' in sys.argv:
        for k, v in sorted(modeled.items()):
            print("  ", k, len(v))
    print("== unknown (%d)" % len(unknown))
    for k, v in sorted(unknown.items()):
        print("  ", k, '   <-', v[0])


if __name__ == '__main__':
    main()
