#!/usr/bin/env python3
"""Generate MANIFEST.json from the table below (single source of truth)."""
import json, os
V = os.path.dirname(os.path.dirname(os.path.abspath(__file__)))

CLAIMED = {
    'C06': dict(
        text="Bounded symbolic proof over the real MIR: for ALL 2^64 keys and ALL 2^64 shard counts the solver shows "
             "Sharder::shard == PostgreSQL's hash-partition function (independent transcription validated on 50 real-PostgreSQL "
             "vectors), result < shards, and no panic except shards == 0. Right level: the function is loop-free 64-bit arithmetic, "
             "so the solver's verdict is exhaustive where tests sample 70 keys.",
        note="Trusts: mirsym MIR interpreter and its library models (listed per run in evidence.trusted_base), z3, the PostgreSQL "
             "reference transcription (harness/refs.py). Division is an uninterpreted function on both sides of the equality. "
             "SHA1 variant and WHERE-clause literal extraction are outside the claim.",
        technique="symbolic execution of rustc MIR + SMT (z3 bit-vectors), native replay of counterexamples",
        ref="DESIGN.md §5 C06"),
}

NA = {}

def main():
    props = [json.loads(l) for l in open(os.path.join(V, 'properties.jsonl'))]
    extra = {}
    p = os.path.join(V, 'tools', 'manifest_table.json')
    if os.path.exists(p):
        t = json.load(open(p))
        CLAIMED.update(t.get('claimed', {}))
        NA.update(t.get('not_applicable', {}))
    checks = []
    for pr in props:
        pid = pr['id']
        if pid not in CLAIMED:
            continue
        c = CLAIMED[pid]
        checks.append({
            'property_id': pid,
            'quick_cmd': './check %s --tier quick' % pid,
            'thorough_cmd': './check %s --tier thorough' % pid,
            'evidence_file': 'evidence/%s.json' % pid,
            'replay_cmd_template': './check %s --replay {path}' % pid,
            'engine': 'mirsym',
            'level_claimed': {'category': 'other', 'text': c['text'], 'design_ref': c.get('ref', '')},
            'level_note': c['note'],
            'technique': c['technique'],
        })
    na = []
    for pr in props:
        pid = pr['id']
        if pid in CLAIMED:
            continue
        na.append({'property_id': pid, 'reason': NA.get(pid, 'check not built yet (see DESIGN.md §5 for the plan)')})
    m = {
        'version': 1,
        'setup_cmd': 'bash setup.sh',
        'hooks': {
            'guard': 'pgcat_verif',
            'enable': 'no source hooks are needed: checks read private state from the MIR dump (cargo rustc -- --emit=mir --cfg pgcat_verif) and replay through probe modules appended to a scratch copy of the tree',
            'baseline_off_cmd': 'cd /repo && cargo test --workspace --no-fail-fast --offline',
            'source_commits': [],
            'add_only': True,
        },
        'engines': [
            {'name': 'mirsym', 'path': 'mirsym/', 'serves_properties': sorted(CLAIMED),
             'kind_free_text': 'symbolic interpreter for rustc MIR (regenerated from /repo each run) with z3 back end; library models in mirsym/models'},
            {'name': 'native-oracle', 'path': 'native/', 'serves_properties': sorted(CLAIMED),
             'kind_free_text': 'real pgcat compiled from a scratch copy with probe modules; translator validation and counterexample replay'},
        ],
        'checks': checks,
        'not_applicable': na,
        'notes': 'Exit codes: 0 held, 1 VIOLATION (replayed natively), 2 inconclusive (never reported as pass). See DESIGN.md.',
    }
    json.dump(m, open(os.path.join(V, 'MANIFEST.json'), 'w'), indent=1)

if __name__ == '__main__':
    main()
