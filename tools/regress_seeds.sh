#!/bin/bash
# usage: regress_seeds.sh [seed ...]   -- run every seeded change (or the listed ones) against its check, in a scratch worktree
# of /repo HEAD (so /repo itself is never touched), using this copy of /verif.  Prints one line per seed.
V="$(cd "$(dirname "$0")/.." && pwd)"
WT=${SEED_WT:-/tmp/wt/regress}
cd /repo && git worktree remove --force "$WT" 2>/dev/null; git worktree add -q "$WT" HEAD || exit 9
export VERIF_REPO="$WT" CARGO_NET_OFFLINE=true VERIF_EVIDENCE_DIR=${VERIF_EVIDENCE_DIR:-/tmp/evid_regress}
mkdir -p "$VERIF_EVIDENCE_DIR"
seeds="$@"; [ -z "$seeds" ] && seeds=$(ls "$V/seeded")
for s in $seeds; do
  p=${s%%-*}
  chk=$(python3 -c "import json;print((json.load(open('$V/seeded/$s/meta.json')).get('detected_by') or {}).get('check') or '$p')")
  chk=${chk%% *}
  cd "$WT" && git checkout -q -- . && git clean -qfd -e target
  if ! git apply --check "$V/seeded/$s/patch.diff" 2>/dev/null; then echo "$s: PATCH DOES NOT APPLY"; continue; fi
  git apply "$V/seeded/$s/patch.diff"
  cd "$V" && timeout ${SEED_TIMEOUT:-2400} ./check "$chk" --tier quick > /tmp/regress_$s.log 2>&1
  rc=$?
  echo "$s: check=$chk rc=$rc $(grep -E '^VIOLATION|^INCONCLUSIVE' /tmp/regress_$s.log | head -1 | cut -c1-120) $(grep -E 'what:' /tmp/regress_$s.log | head -1 | cut -c1-160)"
done
cd /repo && git worktree remove --force "$WT"
[ -n "$KEEP_ALT_CACHE" ] || true
echo REGRESS-DONE
