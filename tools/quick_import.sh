#!/bin/bash
# usage: quick_import.sh <PROP> <mK>  -- copy an agent's deliverable from /tmp/seed/<PROP>/<mK> into seeded/<PROP>-<mK> with a minimal meta.json
P=$1; M=$2; D=/verif/seeded/$P-$M
mkdir -p $D && cp /tmp/seed/$P/$M/{patch.diff,demo.diff,README.md} $D/ && [ -f $D/meta.json ] || echo "{\"property\":\"$P\",\"detected_by\":{\"check\":\"$P\"}}" > $D/meta.json
echo imported $D
