#!/usr/bin/env python3
"""Print the markdown table of seeded changes from seeded/*/meta.json (used for DESIGN.md §8)."""
import json, glob, os, re
rows = []
for d in sorted(glob.glob(os.path.join(os.path.dirname(os.path.dirname(os.path.abspath(__file__))), 'seeded', '*'))):
    m = json.load(open(os.path.join(d, 'meta.json')))
    db = m.get('detected_by') or {}
    res = '**missed**' if db.get('missed') else ('neutralised by a later fix (caught before it)' if m.get('neutralised') else 'caught')
    by = '; '.join(db.get('obligations') or []) or db.get('why', '')
    rows.append('| %s | %s | %s | %s: %s |' % (os.path.basename(d), (m.get('needs_to_manifest') or '')[:130].replace('|', '/'), res, db.get('check', ''), by[:260].replace('|', '/')))
print('| seed | needs to manifest | result | by |\n|---|---|---|---|')
print('\n'.join(rows))
