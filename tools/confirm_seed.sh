#!/bin/bash
# usage: confirm_seed.sh <seed_dir containing patch.diff, demo.diff> <demo test filter>
# Confirms in a scratch worktree of /repo HEAD: (1) demo passes without patch, (2) with patch: builds, 35 baseline tests pass, demo fails.
D="$1"; F="$2"
WT=/tmp/wt/confirm
export CARGO_NET_OFFLINE=true CARGO_TARGET_DIR=/tmp/wt/confirm-target
cd /repo
git worktree remove --force $WT 2>/dev/null
git worktree add -q $WT HEAD || exit 9
cd $WT
echo "### $D"
git apply "$D/demo.diff" || { echo "DEMO DOES NOT APPLY"; exit 9; }
cargo test --offline --lib $F 2>&1 | grep -E "^test result|^test .*(FAILED|ok)$" | grep -v dns_cache | tail -n 6 > /tmp/confirm_a.txt
echo "--- without patch (demo only):"; cat /tmp/confirm_a.txt
git apply "$D/patch.diff" || { echo "PATCH DOES NOT APPLY after demo"; exit 9; }
cargo test --offline --lib 2>&1 | grep -E "^test result|^test .*FAILED$|^error" | tail -n 12 > /tmp/confirm_b.txt
echo "--- with patch (full suite + demo):"; cat /tmp/confirm_b.txt
cd /repo; git worktree remove --force $WT
