#!/usr/bin/env python3
"""import_seed.py <PROP> <mK> "<needs>"  -- copy a confirmed seeded change into /verif/seeded/<PROP>-<mK>/."""
import sys, os, shutil, json, re
prop, m, needs = sys.argv[1], sys.argv[2], sys.argv[3]
src = '/tmp/seed/%s/%s' % (prop, m)
dst = '/verif/seeded/%s-%s' % (prop, m)
os.makedirs(dst, exist_ok=True)
for f in ('patch.diff', 'demo.diff', 'README.md'):
    shutil.copy(os.path.join(src, f), os.path.join(dst, f))
log = open('/tmp/confirm_all.log').read()
blk = ''
mm = re.search(r'### %s\n(.*?)(?=\n### |\Z)' % re.escape(src), log, re.S)
if mm:
    blk = mm.group(1).strip()
meta = {
    'property': prop,
    'change': open(os.path.join(src, 'README.md')).read().split('\n')[0][:200],
    'needs_to_manifest': needs,
    'produced_by': 'independent sub-agent given only the property text and a scratch worktree (nothing from /verif)',
    'confirmed': {
        'how': 'tools/confirm_seed.sh in a scratch worktree of /repo HEAD: demo.diff alone -> demo passes; patch.diff + demo.diff -> '
               'crate builds, the 35 baseline tests pass, the demo fails (dns_cache::tests::{has_changed,lookup_ip,thread} always fail offline)',
        'log': blk,
    },
    'detected_by': None,
}
p = os.path.join(dst, 'meta.json')
if os.path.exists(p):
    old = json.load(open(p))
    meta['detected_by'] = old.get('detected_by')
json.dump(meta, open(p, 'w'), indent=1)
print('imported', dst)
