#!/bin/bash
# Offline setup: warm the MIR dump and the native oracle build from /repo's working tree.
set -e
cd "$(dirname "$0")"
export CARGO_NET_OFFLINE=true
python3-vt - <<'PY'
import sys
sys.path.insert(0, '.')
from mirsym import build
from native import oracle
build.build_mir('on', quiet=False)
build.build_mir('off', quiet=False)
print(oracle.ensure_built('dev'))
PY
