"""rxsmt: the `regex`-crate subset used by pgcat, as (a) z3 RegLan terms for language-level queries
and (b) unrolled NFA membership formulas over fixed-length symbolic byte lists (interpreter model).

Alphabet: ASCII (0..127).  Non-ASCII input (where Unicode case folding makes `(?i)k` also match
U+212A, `(?i)s` U+017F) is outside every claim made with this module.
"""
import z3
from .mirparse import Unsupported

ASCII = frozenset(range(128))


class Node:
    def __init__(self, kind, **kw):
        self.kind = kind
        self.__dict__.update(kw)

    def __repr__(self):
        return "%s(%s)" % (self.kind, ', '.join('%s=%r' % (k, v) for k, v in self.__dict__.items() if k != 'kind'))


def _class_escape(c):
    if c == 'd':
        return frozenset(range(48, 58))
    if c == 'D':
        return ASCII - frozenset(range(48, 58))
    if c == 'w':
        return frozenset(list(range(48, 58)) + list(range(65, 91)) + list(range(97, 123)) + [95])
    if c == 'W':
        return ASCII - _class_escape('w')
    if c == 's':
        return frozenset([9, 10, 11, 12, 13, 32])
    if c == 'S':
        return ASCII - _class_escape('s')
    return None


_SIMPLE_ESC = {'n': 10, 't': 9, 'r': 13, 'f': 12, 'v': 11, '0': 0, 'a': 7}


class Parser:
    def __init__(self, pat):
        self.p = pat
        self.i = 0
        self.icase = False
        self.ngroups = 0
        self.dotall = False

    def fold(self, s):
        if not self.icase:
            return s
        out = set(s)
        for b in s:
            if 65 <= b <= 90:
                out.add(b + 32)
            elif 97 <= b <= 122:
                out.add(b - 32)
        return frozenset(out)

    def parse(self):
        # leading inline flags
        while self.p.startswith('(?', self.i) and self.i + 2 < len(self.p):
            j = self.p.find(')', self.i)
            flags = self.p[self.i + 2:j]
            if j < 0 or not flags or any(f not in 'imsxuU-' for f in flags):
                break
            on = True
            for f in flags:
                if f == '-':
                    on = False
                elif f == 'i':
                    self.icase = on
                elif f == 's':
                    self.dotall = on
                elif f in 'mx':
                    raise Unsupported("regex flag " + f)
            self.i = j + 1
        node = self.alt()
        if self.i != len(self.p):
            raise Unsupported("regex trailing: " + self.p[self.i:])
        return node

    def alt(self):
        parts = [self.concat()]
        while self.i < len(self.p) and self.p[self.i] == '|':
            self.i += 1
            parts.append(self.concat())
        return parts[0] if len(parts) == 1 else Node('alt', parts=parts)

    def concat(self):
        items = []
        while self.i < len(self.p) and self.p[self.i] not in '|)':
            items.append(self.repeat())
        return Node('cat', parts=items)

    def repeat(self):
        a = self.atom()
        while self.i < len(self.p) and self.p[self.i] in '*+?{':
            c = self.p[self.i]
            if c == '{':
                j = self.p.find('}', self.i)
                body = self.p[self.i + 1:j]
                if j < 0 or not body or not all(ch.isdigit() or ch == ',' for ch in body):
                    break
                if ',' in body:
                    lo, hi = body.split(',')
                    lo = int(lo or 0)
                    hi = int(hi) if hi else None
                else:
                    lo = hi = int(body)
                self.i = j + 1
            else:
                self.i += 1
                lo, hi = {'*': (0, None), '+': (1, None), '?': (0, 1)}[c]
            greedy = True
            if self.i < len(self.p) and self.p[self.i] == '?':
                greedy = False
                self.i += 1
            a = Node('rep', sub=a, lo=lo, hi=hi, greedy=greedy)
        return a

    def atom(self):
        c = self.p[self.i]
        if c == '(':
            self.i += 1
            cap = None
            if self.p.startswith('?:', self.i):
                self.i += 2
            elif self.p.startswith('?P<', self.i) or self.p.startswith('?<', self.i):
                j = self.p.index('>', self.i)
                self.i = j + 1
                self.ngroups += 1
                cap = self.ngroups
            elif self.p.startswith('?', self.i):
                raise Unsupported("regex group flags: " + self.p[self.i:self.i + 6])
            else:
                self.ngroups += 1
                cap = self.ngroups
            sub = self.alt()
            if self.i >= len(self.p) or self.p[self.i] != ')':
                raise Unsupported("regex: missing )")
            self.i += 1
            return Node('group', sub=sub, cap=cap)
        if c == '[':
            return self.cls()
        if c == '.':
            self.i += 1
            return Node('set', s=ASCII if self.dotall else ASCII - frozenset([10]))
        if c == '^':
            self.i += 1
            return Node('bol')
        if c == '$':
            self.i += 1
            return Node('eol')
        if c == '\\':
            self.i += 1
            d = self.p[self.i]
            self.i += 1
            ce = _class_escape(d)
            if ce is not None:
                return Node('set', s=ce)
            if d in _SIMPLE_ESC:
                return Node('set', s=frozenset([_SIMPLE_ESC[d]]))
            if d in 'bBAzZpPxuU' or d.isdigit():
                raise Unsupported("regex escape \\" + d)
            return Node('set', s=self.fold(frozenset([ord(d)])))
        self.i += 1
        if ord(c) >= 128:
            raise Unsupported("non-ASCII regex literal")
        return Node('set', s=self.fold(frozenset([ord(c)])))

    def cls(self):
        assert self.p[self.i] == '['
        self.i += 1
        negate = False
        if self.p[self.i] == '^':
            negate = True
            self.i += 1
        s = set()
        first = True
        while True:
            if self.i >= len(self.p):
                raise Unsupported("regex: unterminated class")
            c = self.p[self.i]
            if c == ']' and not first:
                self.i += 1
                break
            first = False
            if c == '[' and self.p.startswith('[:', self.i):
                raise Unsupported("posix class")
            if c == '\\':
                d = self.p[self.i + 1]
                self.i += 2
                ce = _class_escape(d)
                if ce is not None:
                    s |= ce
                    continue
                lo = _SIMPLE_ESC.get(d, ord(d))
            else:
                lo = ord(c)
                self.i += 1
            if self.p[self.i] == '-' and self.p[self.i + 1] != ']':
                self.i += 1
                e = self.p[self.i]
                if e == '\\':
                    e = self.p[self.i + 1]
                    self.i += 1
                    hi = _SIMPLE_ESC.get(e, ord(e))
                else:
                    hi = ord(e)
                self.i += 1
                s |= set(range(lo, hi + 1))
            else:
                s.add(lo)
        s = self.fold(frozenset(x for x in s if x < 128))
        if negate:
            s = ASCII - s
        return Node('set', s=frozenset(s))


def parse(pat):
    p = Parser(pat)
    ast = p.parse()
    return ast, p.ngroups


def strip_anchors(ast):
    """Return (body, anchored_start, anchored_end) for top-level ^...$ ; anchors elsewhere unsupported."""
    a_s = a_e = False
    if ast.kind == 'cat':
        parts = list(ast.parts)
        if parts and parts[0].kind == 'bol':
            a_s = True
            parts = parts[1:]
        if parts and parts[-1].kind == 'eol':
            a_e = True
            parts = parts[:-1]
        body = Node('cat', parts=parts)
    else:
        body = ast
    _no_anchors(body)
    return body, a_s, a_e


def _no_anchors(n):
    if n.kind in ('bol', 'eol'):
        raise Unsupported("regex anchor not at pattern boundary")
    if n.kind in ('cat', 'alt'):
        for p in n.parts:
            _no_anchors(p)
    elif n.kind in ('rep', 'group'):
        _no_anchors(n.sub)


# ------------------------------------------------------------------------------- z3 RegLan
def _ranges(s):
    xs = sorted(s)
    out = []
    i = 0
    while i < len(xs):
        j = i
        while j + 1 < len(xs) and xs[j + 1] == xs[j] + 1:
            j += 1
        out.append((xs[i], xs[j]))
        i = j + 1
    return out


def set_to_re(s):
    rs = [z3.Range(chr(a), chr(b)) if a != b else z3.Re(chr(a)) for a, b in _ranges(s)]
    if not rs:
        return z3.Empty(z3.ReSort(z3.StringSort()))
    return rs[0] if len(rs) == 1 else z3.Union(*rs)


SIGMA = None


def sigma_star():
    return z3.Star(z3.Range(chr(0), chr(127)))


def body_to_re(n):
    k = n.kind
    if k == 'set':
        return set_to_re(n.s)
    if k == 'cat':
        if not n.parts:
            return z3.Re("")
        rs = [body_to_re(p) for p in n.parts]
        return rs[0] if len(rs) == 1 else z3.Concat(*rs)
    if k == 'alt':
        return z3.Union(*[body_to_re(p) for p in n.parts])
    if k == 'group':
        return body_to_re(n.sub)
    if k == 'rep':
        r = body_to_re(n.sub)
        if n.lo == 0 and n.hi is None:
            return z3.Star(r)
        if n.lo == 1 and n.hi is None:
            return z3.Plus(r)
        if n.lo == 0 and n.hi == 1:
            return z3.Option(r)
        if n.hi is None:
            return z3.Concat(z3.Loop(r, n.lo, n.lo), z3.Star(r))
        return z3.Loop(r, n.lo, n.hi)
    raise Unsupported("regex node " + k)


def to_re(pat):
    """Language of `Regex::is_match(pat, s)` over ASCII strings, as a z3 RegLan."""
    ast, ng = parse(pat)
    body, a_s, a_e = strip_anchors(ast)
    r = body_to_re(body)
    parts = []
    if not a_s:
        parts.append(sigma_star())
    parts.append(r)
    if not a_e:
        parts.append(sigma_star())
    return parts[0] if len(parts) == 1 else z3.Concat(*parts)


# ------------------------------------------------------------------------------- NFA unrolling
class NFA:
    def __init__(self):
        self.n = 0
        self.eps = {}     # q -> [q']
        self.edges = {}   # q -> [(set, q')]

    def new(self):
        self.n += 1
        return self.n - 1

    def add_eps(self, a, b):
        self.eps.setdefault(a, []).append(b)

    def add_edge(self, a, s, b):
        self.edges.setdefault(a, []).append((s, b))

    def closure(self, qs):
        out = set(qs)
        stack = list(qs)
        while stack:
            q = stack.pop()
            for r in self.eps.get(q, ()):
                if r not in out:
                    out.add(r)
                    stack.append(r)
        return out


def build(nfa, n, start):
    """Thompson construction; returns accepting state."""
    k = n.kind
    if k == 'set':
        e = nfa.new()
        nfa.add_edge(start, n.s, e)
        return e
    if k == 'cat':
        cur = start
        for p in n.parts:
            cur = build(nfa, p, cur)
        return cur
    if k == 'alt':
        e = nfa.new()
        for p in n.parts:
            s = nfa.new()
            nfa.add_eps(start, s)
            nfa.add_eps(build(nfa, p, s), e)
        return e
    if k == 'group':
        return build(nfa, n.sub, start)
    if k == 'rep':
        cur = start
        for _ in range(n.lo):
            cur = build(nfa, n.sub, cur)
        if n.hi is None:
            loop = nfa.new()
            nfa.add_eps(cur, loop)
            back = build(nfa, n.sub, loop)
            nfa.add_eps(back, loop)
            return loop
        e = nfa.new()
        nfa.add_eps(cur, e)
        for _ in range(n.hi - n.lo):
            cur = build(nfa, n.sub, cur)
            nfa.add_eps(cur, e)
        return e
    raise Unsupported("regex node " + k)


_INSET_CACHE = {}
_FM_CACHE = {}
_NFA_CACHE = {}


def in_set(b, s):
    """z3 Bool / Python bool: 8-bit term (or int) b is in set s."""
    if isinstance(b, int):
        return b in s
    if not s:
        return False
    key = (b.get_id(), s)
    hit = _INSET_CACHE.get(key)
    if hit is not None:
        return hit[0]
    r = _in_set(b, s)
    _INSET_CACHE[key] = (r, b)
    return r


def _in_set(b, s):
    cs = []
    for lo, hi in _ranges(s):
        if lo == hi:
            cs.append(b == lo)
        else:
            cs.append(z3.And(z3.UGE(b, lo), z3.ULE(b, hi)))
    return cs[0] if len(cs) == 1 else z3.Or(*cs)


def _or(xs):
    xs = [x for x in xs if x is not False]
    if any(x is True for x in xs):
        return True
    if not xs:
        return False
    return xs[0] if len(xs) == 1 else z3.Or(*xs)


def _and(a, b):
    if a is False or b is False:
        return False
    if a is True:
        return b
    if b is True:
        return a
    return z3.And(a, b)


def full_match(node, bs):
    """Formula: the byte list bs (ints or z3 8-bit terms) is in L(node) (whole-string match)."""
    key = (id(node), tuple(b if isinstance(b, int) else b.get_id() for b in bs))
    hit = _FM_CACHE.get(key)
    if hit is not None:
        return hit[0]
    r = _full_match(node, bs)
    _FM_CACHE[key] = (r, list(bs), node)
    return r


def _full_match(node, bs):
    ent = _NFA_CACHE.get(id(node))
    if ent is None:
        nfa = NFA()
        s0 = nfa.new()
        acc = build(nfa, node, s0)
        ent = _NFA_CACHE[id(node)] = (nfa, s0, acc, node)
    nfa, s0, acc, _ = ent
    cur = {q: True for q in nfa.closure([s0])}
    for b in bs:
        nxt = {}
        for q, c in cur.items():
            for (st, q2) in nfa.edges.get(q, ()):
                m = _and(c, in_set(b, st))
                if m is False:
                    continue
                for r in nfa.closure([q2]):
                    nxt.setdefault(r, []).append(m)
        cur = {q: _or(v) for q, v in nxt.items()}
        cur = {q: v for q, v in cur.items() if v is not False}
    return cur.get(acc, False)


class Compiled:
    """A compiled pattern: is_match formula and capture-group-1 span candidates."""

    def __init__(self, pat):
        self.pat = pat
        ast, self.ngroups = parse(pat)
        self.body, self.a_s, self.a_e = strip_anchors(ast)
        any_ = Node('rep', sub=Node('set', s=ASCII), lo=0, hi=None, greedy=True)
        self.any = any_
        parts = list(self.body.parts) if self.body.kind == 'cat' else [self.body]
        self.whole = Node('cat', parts=([] if self.a_s else [any_]) + parts + ([] if self.a_e else [any_]))
        # split around the first top-level capture group
        self.pre = self.grp = self.post = None
        for i, p in enumerate(parts):
            if p.kind == 'group' and p.cap == 1:
                self.pre = Node('cat', parts=([] if self.a_s else [any_]) + parts[:i])
                self.grp = p.sub
                self.post = Node('cat', parts=parts[i + 1:] + ([] if self.a_e else [any_]))
                break
            if _has_cap(p):
                break

    def is_match(self, bs):
        if any(isinstance(b, int) and b >= 128 for b in bs):
            raise Unsupported("non-ASCII byte in regex subject")
        return full_match(self.whole, bs)

    def capture1(self, bs):
        """List of (start, end, formula) in leftmost / greedy priority order."""
        if self.grp is None:
            raise Unsupported("capture group 1 is not a top-level group of " + self.pat)
        n = len(bs)
        out = []
        for s in range(n + 1):
            pre = full_match(self.pre, bs[:s])
            if pre is False:
                continue
            for e in range(n, s - 1, -1):
                g = full_match(self.grp, bs[s:e])
                if g is False:
                    continue
                po = full_match(self.post, bs[e:])
                f = _and(_and(pre, g), po)
                if f is not False:
                    out.append((s, e, f))
        return out


def _has_cap(n):
    if n.kind == 'group':
        return n.cap is not None or _has_cap(n.sub)
    if n.kind in ('cat', 'alt'):
        return any(_has_cap(p) for p in n.parts)
    if n.kind == 'rep':
        return _has_cap(n.sub)
    return False
