"""Light-weight source scanner: struct field order, enum variants (with discriminants) and impl
headers by (file, line, col).  Used to (a) build symbolic pre-states with the real field layout and
(b) map MIR def names `mod::<impl at src/x.rs:L:C: L:C>::method` to `(SelfType, Trait, method)` so
that functions are located by item path + signature, never by a stored line number (the line spans
are only used inside one run, where MIR dump and sources come from the same tree)."""
import re, os, glob


def strip_comments(src):
    """Replace comments and string/char literal contents by spaces (keeps offsets and newlines)."""
    out = []
    i = 0
    n = len(src)
    while i < n:
        c = src[i]
        if src.startswith('//', i):
            j = src.find('\n', i)
            if j < 0:
                j = n
            out.append(' ' * (j - i))
            i = j
        elif src.startswith('/*', i):
            depth = 1
            j = i + 2
            while j < n and depth:
                if src.startswith('/*', j):
                    depth += 1
                    j += 2
                elif src.startswith('*/', j):
                    depth -= 1
                    j += 2
                else:
                    j += 1
            out.append(''.join(ch if ch == '\n' else ' ' for ch in src[i:j]))
            i = j
        elif c == '"':
            j = i + 1
            while j < n and src[j] != '"':
                if src[j] == '\\':
                    j += 1
                j += 1
            out.append('"' + ''.join(ch if ch == '\n' else ' ' for ch in src[i + 1:j]) + '"')
            i = j + 1
        elif c == 'r' and re.match(r'r#*"', src[i:i + 6]) and (i == 0 or not (src[i - 1].isalnum() or src[i - 1] == '_')):
            m = re.match(r'r(#*)"', src[i:])
            end = '"' + m.group(1)
            j = src.find(end, i + len(m.group(0)))
            j2 = j + len(end)
            out.append(''.join(ch if ch == '\n' else ' ' for ch in src[i:j2]))
            i = j2
        elif c == "'":
            m = re.match(r"'(\\.[^']*|[^'\\])'", src[i:])
            if m:
                out.append("'" + ' ' * (len(m.group(0)) - 2) + "'")
                i += len(m.group(0))
            else:
                out.append(c)
                i += 1
        else:
            out.append(c)
            i += 1
    return ''.join(out)


def _match(src, i, o='{', c='}'):
    depth = 0
    n = len(src)
    while i < n:
        if src[i] == o:
            depth += 1
        elif src[i] == c:
            depth -= 1
            if depth == 0:
                return i
        i += 1
    return n


def _split_top(s):
    out = []
    depth = 0
    cur = []
    i = 0
    while i < len(s):
        ch = s[i]
        if ch == '-' and s[i:i + 2] == '->':
            cur.append('->')
            i += 2
            continue
        if ch in '([{<':
            depth += 1
        elif ch in ')]}>':
            depth -= 1
        if ch == ',' and depth == 0:
            out.append(''.join(cur))
            cur = []
        else:
            cur.append(ch)
        i += 1
    if ''.join(cur).strip():
        out.append(''.join(cur))
    return out


class SourceInfo:
    def __init__(self):
        self.structs = {}      # name -> [field names] (tuple structs: ['0','1',..])
        self.struct_types = {} # name -> [field type text]
        self.enums = {}        # name -> [(variant, discr_int, [field names or idx])]
        self.files = {}        # path -> raw text lines
        self.clean = {}        # path -> comment-stripped text

    def add_file(self, path, key=None, ns=None):
        try:
            raw = open(path, errors='replace').read()
        except OSError:
            return
        key = key or path
        self.files[key] = raw.split('\n')
        clean = strip_comments(raw)
        self.clean[key] = clean
        for m in re.finditer(r'\b(struct|enum)\s+([A-Za-z_][A-Za-z0-9_]*)\s*(<[^{;(]*?>)?\s*(where[^{;]*)?([{(;])', clean):
            kind, name, _, _, opener = m.groups()
            if kind == 'struct':
                if opener == '{':
                    end = _match(clean, m.end() - 1)
                    body = clean[m.end():end]
                    names, tys = [], []
                    for f in _split_top(body):
                        f = re.sub(r'#\s*\[[^\]]*\]', ' ', f)
                        fm = re.match(r'\s*(?:pub(?:\([^)]*\))?\s+)?([A-Za-z_][A-Za-z0-9_]*)\s*:\s*(.*)$', f.strip(), re.S)
                        if fm:
                            names.append(fm.group(1))
                            tys.append(' '.join(fm.group(2).split()))
                    self.structs.setdefault(name, names)
                    self.struct_types.setdefault(name, tys)
                    if ns:
                        self.structs.setdefault(ns + '::' + name, names)
                elif opener == '(':
                    end = _match(clean, m.end() - 1, '(', ')')
                    n = len(_split_top(clean[m.end():end]))
                    self.structs.setdefault(name, [str(i) for i in range(n)])
                else:
                    self.structs.setdefault(name, [])
            else:
                if opener != '{':
                    continue
                end = _match(clean, m.end() - 1)
                body = clean[m.end():end]
                variants = []
                nxt = 0
                for v in _split_top(body):
                    v = re.sub(r'#\s*\[[^\]]*\]', ' ', v).strip()
                    vm = re.match(r'([A-Za-z_][A-Za-z0-9_]*)\s*(.*)$', v, re.S)
                    if not vm:
                        continue
                    vname, rest = vm.group(1), vm.group(2).strip()
                    fields = []
                    dm = re.search(r'=\s*(-?\d+)\s*$', rest)
                    if dm and not rest.startswith('(') and not rest.startswith('{'):
                        nxt = int(dm.group(1))
                    if rest.startswith('('):
                        e = _match(rest, 0, '(', ')')
                        fields = [str(i) for i in range(len(_split_top(rest[1:e])))]
                    elif rest.startswith('{'):
                        e = _match(rest, 0)
                        for f in _split_top(rest[1:e]):
                            fm = re.match(r'\s*([A-Za-z_][A-Za-z0-9_]*)\s*:', f.strip())
                            if fm:
                                fields.append(fm.group(1))
                    variants.append((vname, nxt, fields))
                    nxt += 1
                self.enums.setdefault(name, variants)
                if ns:
                    self.enums.setdefault(ns + '::' + name, variants)

    def add_tree(self, root, prefix='', ns=None):
        for p in sorted(glob.glob(os.path.join(root, '**', '*.rs'), recursive=True)):
            self.add_file(p, prefix + os.path.relpath(p, root), ns)

    # ---- impl header lookup ---------------------------------------------------------
    def impl_at(self, file, line, col, line2, col2):
        """Return (self_type, trait or None) for the impl / derive whose span starts at file:line:col."""
        lines = self.files.get(file)
        if lines is None:
            return None
        if line == line2:
            text = lines[line - 1][col - 1:col2 - 1]
        else:
            text = lines[line - 1][col - 1:] + ' ' + ' '.join(lines[line:line2 - 1]) + ' ' + lines[line2 - 1][:col2 - 1]
        text = ' '.join(text.split())
        if text.startswith('impl') or text.startswith('unsafe impl'):
            t = text.split('impl', 1)[1].strip()
            if t.startswith('<'):
                # generics
                depth = 0
                for i, ch in enumerate(t):
                    if ch == '<':
                        depth += 1
                    elif ch == '>' and t[i - 1] != '-':
                        depth -= 1
                        if depth == 0:
                            t = t[i + 1:].strip()
                            break
            t = re.sub(r'\bwhere\b.*$', '', t).strip()
            # split ' for ' at depth 0
            depth = 0
            idx = None
            for i, ch in enumerate(t):
                if ch in '<([':
                    depth += 1
                elif ch in '>)]' and not (ch == '>' and i > 0 and t[i - 1] == '-'):
                    depth -= 1
                elif depth == 0 and t.startswith(' for ', i):
                    idx = i
                    break
            if idx is None:
                return (t.strip(), None)
            return (t[idx + 5:].strip(), t[:idx].strip())
        # derive: text is the trait name; type is the next struct/enum after this line
        if re.fullmatch(r'[A-Za-z_:]+', text):
            for k in range(line - 1, min(line + 40, len(lines))):
                m = re.search(r'\b(struct|enum|union)\s+([A-Za-z_][A-Za-z0-9_]*)', lines[k])
                if m and not lines[k].lstrip().startswith('//'):
                    return (m.group(2), text.split('::')[-1])
        return None


# library enums: name -> [(variant, discr)]
LIB_ENUMS = {
    'Option': [('None', 0), ('Some', 1)],
    'Result': [('Ok', 0), ('Err', 1)],
    'Poll': [('Ready', 0), ('Pending', 1)],
    'ControlFlow': [('Continue', 0), ('Break', 1)],
    'Ordering': [('Less', -1), ('Equal', 0), ('Greater', 1)],
    'Cow': [('Borrowed', 0), ('Owned', 1)],
    'Level': [('Error', 1), ('Warn', 2), ('Info', 3), ('Debug', 4), ('Trace', 5)],
    'LevelFilter': [('Off', 0), ('Error', 1), ('Warn', 2), ('Info', 3), ('Debug', 4), ('Trace', 5)],
    'Bound': [('Included', 0), ('Excluded', 1), ('Unbounded', 2)],
    'Entry': [('Occupied', 0), ('Vacant', 1)],
    'TrySendError': [('Full', 0), ('Closed', 1)],
    'Infallible': [],
    'MaybeDone': [('Future', 0), ('Done', 1), ('Gone', 2)],
    'Either': [('Left', 0), ('Right', 1)],
}
