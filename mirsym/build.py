"""Regenerate the MIR dump from /repo's current working tree and load it."""
import os, subprocess, glob, time, hashlib, fcntl, shutil, sys
from . import mirparse
from .srcinfo import SourceInfo
from .interp import Program, Inconclusive

VERIF = os.path.dirname(os.path.dirname(os.path.abspath(__file__)))
REPO = os.environ.get('VERIF_REPO', '/repo')
# a scratch tree (VERIF_REPO, used by the seed tooling) gets its own work and cache directories, so that it can run next to a check of /repo
_TAG = '' if REPO.rstrip('/') == '/repo' else '-' + hashlib.sha256(REPO.encode()).hexdigest()[:8]
WORK = os.path.join(VERIF, '.work' + _TAG)
CACHE = os.path.join(VERIF, '.cache' + _TAG)
GUARD_CFG = 'pgcat_verif'


def tree_hash(root):
    h = hashlib.sha256()
    for base in ('src', 'Cargo.toml', 'Cargo.lock'):
        p = os.path.join(root, base)
        if os.path.isdir(p):
            for dp, dn, fns in sorted(os.walk(p)):
                dn.sort()
                for fn in sorted(fns):
                    fp = os.path.join(dp, fn)
                    h.update(fp[len(root):].encode())
                    h.update(open(fp, 'rb').read())
        elif os.path.exists(p):
            h.update(open(p, 'rb').read())
    return h.hexdigest()


def sync_src():
    """rsync /repo working tree to .work/src (no target/, no .git)."""
    os.makedirs(WORK, exist_ok=True)
    dst = os.path.join(WORK, 'src')
    subprocess.run(['rsync', '-a', '--delete', '--exclude', 'target', '--exclude', '.git',
                    REPO.rstrip('/') + '/', dst + '/'], check=True)
    return dst


def build_mir(flavour='on', quiet=True):
    """flavour: 'on' (overflow-checks=on, dev profile) or 'off' (wrapping, as in release).
    Returns path of the .mir file.  Serialised with a file lock; cached by tree hash."""
    os.makedirs(CACHE, exist_ok=True)
    lock = open(os.path.join(CACHE, 'build.lock'), 'w')
    fcntl.flock(lock, fcntl.LOCK_EX)
    try:
        src = sync_src()
        th = tree_hash(src)
        tdir = os.path.join(CACHE, 'mir-' + flavour)
        stamp = os.path.join(tdir, 'stamp')
        mirs = glob.glob(os.path.join(tdir, 'debug', 'deps', 'pgcat-*.mir'))
        if os.path.exists(stamp) and open(stamp).read() == th and mirs:
            return max(mirs, key=os.path.getmtime), th
        for m in mirs:
            os.unlink(m)
        env = dict(os.environ)
        env['CARGO_NET_OFFLINE'] = 'true'
        env.pop('RUSTFLAGS', None)
        # make sure cargo re-runs rustc even when only flags changed
        libp = os.path.join(src, 'src', 'lib.rs')
        os.utime(libp, None)
        cmd = ['cargo', 'rustc', '--offline', '--lib', '--target-dir', tdir, '--', '--emit=mir',
               '-C', 'overflow-checks=' + flavour, '--cfg', GUARD_CFG]
        t = time.time()
        r = subprocess.run(cmd, cwd=src, env=env, stdout=subprocess.PIPE, stderr=subprocess.STDOUT, text=True)
        if r.returncode != 0:
            sys.stderr.write(r.stdout[-4000:])
            raise Inconclusive("MIR build failed (does /repo compile?)")
        mirs = glob.glob(os.path.join(tdir, 'debug', 'deps', 'pgcat-*.mir'))
        if not mirs:
            raise Inconclusive("no MIR produced")
        open(stamp, 'w').write(th)
        if not quiet:
            sys.stderr.write("MIR build (%s) %.1fs\n" % (flavour, time.time() - t))
        return max(mirs, key=os.path.getmtime), th
    finally:
        fcntl.flock(lock, fcntl.LOCK_UN)
        lock.close()


_SQLPARSER = None


def sqlparser_src():
    global _SQLPARSER
    if _SQLPARSER is None:
        c = glob.glob(os.path.expanduser('~/.cargo/registry/src/*/sqlparser-0.52.0/src'))
        _SQLPARSER = c[0] if c else ''
    return _SQLPARSER


def load_program(flavour='on', with_sqlparser=False):
    mir, th = build_mir(flavour)
    funcs = mirparse.parse_file(mir)
    src = SourceInfo()
    root = os.path.join(WORK, 'src')
    src.add_tree(os.path.join(root, 'src'), 'src/')
    if with_sqlparser and sqlparser_src():
        src.add_tree(sqlparser_src(), 'sqlparser/', ns='sqlparser')
    prog = Program(funcs, src)
    prog.tree_hash = th
    prog.mir_path = mir
    prog.flavour = flavour
    return prog
