"""Regenerate the MIR dump from /repo's current working tree and load it."""
import os, subprocess, glob, time, hashlib, fcntl, shutil, sys
from . import mirparse
from .srcinfo import SourceInfo
from .interp import Program, Inconclusive

VERIF = os.path.dirname(os.path.dirname(os.path.abspath(__file__)))
REPO = os.environ.get('VERIF_REPO', '/repo')
# a scratch tree (VERIF_REPO, used by the seed tooling) gets its own work and cache directories, so that it can run next to a check of /repo
_TAG = '' if REPO.rstrip('/') == '/repo' else '-' + hashlib.sha256(REPO.encode()).hexdigest()[:8]
WORK = os.path.join(VERIF, '.work' + _TAG)
CACHE = os.path.join(VERIF, '.cache' + _TAG)
GUARD_CFG = 'pgcat_verif'


def tree_hash(root):
    h = hashlib.sha256()
    for base in ('src', 'Cargo.toml', 'Cargo.lock'):
        p = os.path.join(root, base)
        if os.path.isdir(p):
            for dp, dn, fns in sorted(os.walk(p)):
                dn.sort()
                for fn in sorted(fns):
                    fp = os.path.join(dp, fn)
                    h.update(fp[len(root):].encode())
                    h.update(open(fp, 'rb').read())
        elif os.path.exists(p):
            h.update(open(p, 'rb').read())
    return h.hexdigest()


def sync_src():
    """rsync /repo working tree to .work/src (no target/, no .git)."""
    os.makedirs(WORK, exist_ok=True)
    dst = os.path.join(WORK, 'src')
    subprocess.run(['rsync', '-a', '--delete', '--exclude', 'target', '--exclude', '.git',
                    REPO.rstrip('/') + '/', dst + '/'], check=True)
    return dst


def build_mir(flavour='on', quiet=True):
    """flavour: 'on' (overflow-checks=on, dev profile) or 'off' (wrapping, as in release).
    Returns path of the .mir file.  Serialised with a file lock; cached by tree hash."""
    os.makedirs(CACHE, exist_ok=True)
    lock = open(os.path.join(CACHE, 'build.lock'), 'w')
    fcntl.flock(lock, fcntl.LOCK_EX)
    try:
        src = sync_src()
        th = tree_hash(src)
        tdir = os.path.join(CACHE, 'mir-' + flavour)
        stamp = os.path.join(tdir, 'stamp')
        mirs = glob.glob(os.path.join(tdir, 'debug', 'deps', 'pgcat-*.mir'))
        if os.path.exists(stamp) and open(stamp).read() == th and mirs:
            return max(mirs, key=os.path.getmtime), th
        for m in mirs:
            os.unlink(m)
        env = dict(os.environ)
        env['CARGO_NET_OFFLINE'] = 'true'
        env.pop('RUSTFLAGS', None)
        # make sure cargo re-runs rustc even when only flags changed
        libp = os.path.join(src, 'src', 'lib.rs')
        os.utime(libp, None)
        cmd = ['cargo', 'rustc', '--offline', '--lib', '--target-dir', tdir, '--', '--emit=mir',
               '-C', 'overflow-checks=' + flavour, '--cfg', GUARD_CFG]
        t = time.time()
        r = subprocess.run(cmd, cwd=src, env=env, stdout=subprocess.PIPE, stderr=subprocess.STDOUT, text=True)
        if r.returncode != 0:
            sys.stderr.write(r.stdout[-4000:])
            raise Inconclusive("MIR build failed (does /repo compile?)")
        mirs = glob.glob(os.path.join(tdir, 'debug', 'deps', 'pgcat-*.mir'))
        if not mirs:
            raise Inconclusive("no MIR produced")
        open(stamp, 'w').write(th)
        if not quiet:
            sys.stderr.write("MIR build (%s) %.1fs\n" % (flavour, time.time() - t))
        return max(mirs, key=os.path.getmtime), th
    finally:
        fcntl.flock(lock, fcntl.LOCK_UN)
        lock.close()


def build_bin_mir(flavour='on'):
    """MIR of the binary target (src/main.rs), regenerated from the same synced tree.  Built in the library's target directory (its
    dependencies are there already) and moved aside at once: the library's dump is found by globbing pgcat-*.mir."""
    build_mir(flavour)
    lock = open(os.path.join(CACHE, 'build.lock'), 'w')
    fcntl.flock(lock, fcntl.LOCK_EX)
    try:
        src = os.path.join(WORK, 'src')
        th = tree_hash(src)
        tdir = os.path.join(CACHE, 'mir-' + flavour)
        out = os.path.join(tdir, 'main-bin.mir')
        stamp = os.path.join(tdir, 'stamp-bin')
        if os.path.exists(stamp) and open(stamp).read() == th and os.path.exists(out):
            return out, th
        env = dict(os.environ)
        env['CARGO_NET_OFFLINE'] = 'true'
        env.pop('RUSTFLAGS', None)
        before = set(glob.glob(os.path.join(tdir, 'debug', 'deps', 'pgcat-*.mir')))
        os.utime(os.path.join(src, 'src', 'main.rs'), None)
        cmd = ['cargo', 'rustc', '--offline', '--bin', 'pgcat', '--target-dir', tdir, '--', '--emit=mir',
               '-C', 'overflow-checks=' + flavour, '--cfg', GUARD_CFG]
        r = subprocess.run(cmd, cwd=src, env=env, stdout=subprocess.PIPE, stderr=subprocess.STDOUT, text=True)
        new = [m for m in glob.glob(os.path.join(tdir, 'debug', 'deps', 'pgcat-*.mir')) if m not in before]
        if r.returncode != 0 or len(new) != 1:
            for m in new:
                os.unlink(m)
            sys.stderr.write(r.stdout[-4000:])
            raise Inconclusive("MIR build of the binary target failed")
        os.replace(new[0], out)
        open(stamp, 'w').write(th)
        return out, th
    finally:
        fcntl.flock(lock, fcntl.LOCK_UN)
        lock.close()


def load_bin_program(flavour='on'):
    """The functions of src/main.rs as a program of their own (everything they call in the library is an environment hook or is
    run by the library's own obligations)."""
    mir, th = build_bin_mir(flavour)
    funcs = mirparse.parse_file(mir)
    src = SourceInfo()
    src.add_tree(os.path.join(WORK, 'src', 'src'), 'src/')
    prog = Program(funcs, src)
    prog.tree_hash = th
    prog.mir_path = mir
    prog.flavour = flavour
    return prog


_SQLPARSER = None


def sqlparser_src():
    global _SQLPARSER
    if _SQLPARSER is None:
        c = glob.glob(os.path.expanduser('~/.cargo/registry/src/*/sqlparser-0.52.0/src'))
        _SQLPARSER = c[0] if c else ''
    return _SQLPARSER


def load_program(flavour='on', with_sqlparser=False):
    mir, th = build_mir(flavour)
    funcs = mirparse.parse_file(mir)
    src = SourceInfo()
    root = os.path.join(WORK, 'src')
    src.add_tree(os.path.join(root, 'src'), 'src/')
    if with_sqlparser and sqlparser_src():
        src.add_tree(sqlparser_src(), 'sqlparser/', ns='sqlparser')
    prog = Program(funcs, src)
    prog.tree_hash = th
    prog.mir_path = mir
    prog.flavour = flavour
    return prog
