"""Parser for rustc's textual MIR dump (`--emit=mir`, rustc 1.95 stable, pinned toolchain).

The dump is parsed into Function objects (params, typed locals, basic blocks).  Statement and
terminator text is parsed lazily into small tuples the first time it is executed and cached.
Anything not recognised raises Unsupported -- callers turn that into exit code 2, never "pass".
"""
import re, hashlib


class Unsupported(Exception):
    pass


# --------------------------------------------------------------------------------------
# bracket / string aware scanning helpers
# --------------------------------------------------------------------------------------
OPEN = {'(': ')', '[': ']', '{': '}', '<': '>'}
CLOSE = {v: k for k, v in OPEN.items()}


def _skip_string(s, i):
    """s[i] is a quote char starting a string literal; return index after closing quote."""
    q = s[i]
    i += 1
    n = len(s)
    while i < n:
        c = s[i]
        if c == '\\':
            i += 2
            continue
        if c == q:
            return i + 1
        i += 1
    raise Unsupported("unterminated string in: " + s[:80])


def _is_char_lit(s, i):
    # 'x' or '\n' or '\u{..}' char literal vs lifetime ('a / '_)
    if s[i] != "'":
        return False
    if i + 2 < len(s) and s[i + 1] != '\\' and s[i + 2] == "'":
        return True
    if i + 1 < len(s) and s[i + 1] == '\\':
        return True
    return False


def scan(s, i, stops, depth_open='([{<'):
    """Scan s from i at nesting depth 0 until one of the stop strings is found at depth 0.
    Returns (index, stop) or (len(s), None).  Handles string/char literals and `->`."""
    depth = 0
    n = len(s)
    while i < n:
        c = s[i]
        if depth == 0:
            for st in stops:
                if s.startswith(st, i):
                    return i, st
        if c == '"':
            i = _skip_string(s, i)
            continue
        if c == "'" and _is_char_lit(s, i):
            i = _skip_string(s, i)
            continue
        if c == '-' and i + 1 < n and s[i + 1] == '>':
            i += 2
            continue
        if c == '=' and i + 1 < n and s[i + 1] == '>':
            i += 2
            continue
        if c in OPEN and c in depth_open:
            depth += 1
        elif c in CLOSE and CLOSE[c] in depth_open:
            depth -= 1
            if depth < 0:
                return i, None
        i += 1
    return n, None


def match_close(s, i):
    """s[i] is an opening bracket; return index of the matching close bracket."""
    j, st = scan(s, i + 1, ())
    if j >= len(s):
        raise Unsupported("unbalanced: " + s[:120])
    return j


def split_top(s, sep=','):
    """Split s on sep at nesting depth 0."""
    out = []
    i = 0
    start = 0
    while True:
        j, st = scan(s, i, (sep,))
        if st is None:
            if j < len(s):
                # stray close bracket; treat as ordinary char
                i = j + 1
                continue
            out.append(s[start:].strip())
            break
        out.append(s[start:j].strip())
        i = start = j + len(sep)
    if out and out[-1] == '':
        out.pop()
    return out


# --------------------------------------------------------------------------------------
# Places / operands
# --------------------------------------------------------------------------------------
class Place:
    __slots__ = ('local', 'proj')

    def __init__(self, local, proj=()):
        self.local = local
        self.proj = tuple(proj)

    def __repr__(self):
        return "Place(_%d%s)" % (self.local, ''.join('/' + str(p) for p in self.proj))


_num = re.compile(r'\d+')


def parse_place(s, i=0):
    """Parse a place starting at s[i]; return (Place, next_index)."""
    if s[i] == '(':
        if s[i + 1] == '*':
            inner, j = parse_place(s, i + 2)
            if s[j] != ')':
                raise Unsupported("place deref: " + s)
            pl = Place(inner.local, inner.proj + (('deref',),))
            j += 1
        else:
            inner, j = parse_place(s, i + 1)
            if s[j] == '.':
                m = _num.match(s, j + 1)
                idx = int(m.group(0))
                j = m.end()
                if not s.startswith(': ', j):
                    raise Unsupported("place field: " + s)
                k, _ = scan(s, j + 2, ())  # up to unmatched ')'
                ty = s[j + 2:k]
                pl = Place(inner.local, inner.proj + (('field', idx, ty),))
                j = k + 1
            elif s.startswith(' as ', j):
                k, _ = scan(s, j + 4, ())
                pl = Place(inner.local, inner.proj + (('downcast', s[j + 4:k]),))
                j = k + 1
            else:
                raise Unsupported("place paren: " + s[i:i + 80])
    elif s[i] == '_':
        m = _num.match(s, i + 1)
        pl = Place(int(m.group(0)))
        j = m.end()
    else:
        raise Unsupported("place: " + s[i:i + 80])
    # suffixes
    while j < len(s) and s[j] == '[':
        k = match_close(s, j)
        inner = s[j + 1:k]
        m = re.fullmatch(r'_(\d+)', inner)
        if m:
            pl = Place(pl.local, pl.proj + (('index', int(m.group(1))),))
        else:
            m = re.fullmatch(r'(-?)(\d+) of (\d+)', inner)
            if m:
                pl = Place(pl.local, pl.proj + (('constidx', int(m.group(2)), bool(m.group(1)), int(m.group(3))),))
            else:
                m = re.fullmatch(r'(\d+):(-?)(\d*)', inner) or re.fullmatch(r'(\d+)\.\.(-?)(\d*)', inner)
                if m:
                    pl = Place(pl.local, pl.proj + (('subslice', int(m.group(1)), bool(m.group(2)), m.group(3)),))
                else:
                    raise Unsupported("place index: " + s)
        j = k + 1
    return pl, j


def parse_operand(s):
    s = s.strip()
    if s.startswith('copy '):
        pl, j = parse_place(s, 5)
        if j != len(s):
            raise Unsupported("operand trailing: " + s)
        return ('copy', pl)
    if s.startswith('move '):
        pl, j = parse_place(s, 5)
        if j != len(s):
            raise Unsupported("operand trailing: " + s)
        return ('move', pl)
    if s.startswith('const '):
        return ('const', s[6:].strip())
    if re.match(r'[A-Za-z_<]', s):
        return ('const', s)      # bare fn item used as a value
    raise Unsupported("operand: " + s)


# --------------------------------------------------------------------------------------
# Functions
# --------------------------------------------------------------------------------------
class Function:
    def __init__(self, name, kind):
        self.name = name          # full def name as printed
        self.kind = kind          # 'fn' | 'const' | 'static' | 'promoted'
        self.params = []          # [(local, type)]
        self.ret = None
        self.locals = {}          # local -> type text
        self.blocks = {}          # bb index -> (list[str] statements, str terminator, is_cleanup)
        self.text_hash = None
        self.span = None
        self._cache = {}
        self.value_text = None

    def ntext(self):
        return self.name

    def __repr__(self):
        return "<Function %s>" % self.name


_fn_hdr = re.compile(r'^(fn|const|static(?: mut)?) (.*)$')
_bb_hdr = re.compile(r'^    bb(\d+)( \(cleanup\))?: \{$')
_let = re.compile(r'^\s+let (?:mut )?_(\d+): (.*);$')


def parse_file(path):
    """Return dict name -> Function, list in order."""
    funcs = {}
    allocs = {}
    with open(path, 'r', errors='surrogateescape') as f:
        lines = f.read().split('\n')
    i = 0
    n = len(lines)
    while i < n:
        line = lines[i]
        if line and not line[0].isspace() and line.endswith('{') and not line.startswith('alloc'):
            m = _fn_hdr.match(line)
            if not m:
                i += 1
                continue
            start = i
            # find end: a line that is exactly '}'
            j = i + 1
            while j < n and lines[j] != '}':
                j += 1
            fn = _parse_function(lines[start:j + 1])
            if fn is not None:
                funcs[fn.name] = fn
            i = j + 1
        elif line.startswith('alloc') and line.endswith('{'):
            m = re.match(r'^alloc(\d+) \((?:static: ([^,]+), )?size: (\d+), align: (\d+)\) \{$', line)
            j = i + 1
            data = []
            ok = True
            while j < n and lines[j] != '}':
                t = lines[j]
                if '\u2502' in t:
                    segs = t.split('\u2502')
                    hexpart = segs[1] if len(segs) >= 3 else segs[0]
                    for tok in hexpart.split():
                        if re.fullmatch(r'[0-9a-f]{2}', tok):
                            data.append(int(tok, 16))
                        else:
                            ok = False
                j += 1
            if m and int(m.group(1)) not in allocs:
                allocs[int(m.group(1))] = {'static': m.group(2), 'size': int(m.group(3)),
                                            'bytes': data if ok and len(data) == int(m.group(3)) else None}
            i = j + 1
        elif line.startswith('const ') and line.endswith(';') and ' = const ' in line:
            masked = re.sub(r'<impl at [^>]*>', lambda mm: '#' * len(mm.group(0)), line)
            m = re.match(r'^const (.*?): (.*?) = const (.*);$', masked)
            if m:
                m = re.match(r'^const (.{%d}): (.*?) = const (.*);$' % (m.end(1) - m.start(1)), line)
            if m:
                fn = Function(m.group(1), 'const')
                fn.ret = m.group(2)
                fn.value_text = m.group(3)
                fn.text_hash = hashlib.sha256(line.encode()).hexdigest()
                funcs[fn.name] = fn
            i += 1
        else:
            i += 1
    funcs['$allocs'] = allocs
    return funcs


def _parse_header(line):
    m = _fn_hdr.match(line)
    kind = m.group(1)
    rest = m.group(2)
    if kind == 'fn':
        # NAME(params) -> RET {
        # find the '(' starting the param list: the first '(' at depth 0 that follows name
        # name may contain <impl at ...> and {closure#0}
        j = 0
        while True:
            j, st = scan(rest, j, ('(',))
            if st is None:
                raise Unsupported("fn header: " + line)
            break
        name = rest[:j]
        k = match_close(rest, j)
        params = rest[j + 1:k]
        tail = rest[k + 1:].strip()
        ret = '()'
        if tail.startswith('->'):
            ret = tail[2:].rstrip('{').strip()
        return kind, name, params, ret
    else:
        # const NAME: TYPE = {     |  static NAME: TYPE = {
        j, st = scan(rest, 0, (': ',))
        name = rest[:j]
        ty = rest[j + 2:].rstrip('{').strip()
        if ty.endswith('='):
            ty = ty[:-1].strip()
        return ('promoted' if '::promoted[' in name else kind.split()[0]), name, None, ty


def _parse_function(lines):
    kind, name, params, ret = _parse_header(lines[0])
    fn = Function(name, kind)
    fn.ret = ret
    if params:
        for p in split_top(params):
            m = re.match(r'_(\d+): (.*)$', p)
            if not m:
                raise Unsupported("param: " + p + " in " + name)
            fn.params.append((int(m.group(1)), m.group(2)))
            fn.locals[int(m.group(1))] = m.group(2)
    cur = None
    stmts = None
    h = hashlib.sha256()
    for line in lines[1:]:
        h.update(line.encode('utf8', 'surrogateescape'))
        h.update(b'\n')
        m = _bb_hdr.match(line)
        if m:
            cur = int(m.group(1))
            stmts = []
            fn.blocks[cur] = [stmts, None, bool(m.group(2))]
            continue
        if cur is None:
            m = _let.match(line)
            if m:
                fn.locals[int(m.group(1))] = m.group(2)
            continue
        if line == '    }':
            if stmts:
                fn.blocks[cur][1] = stmts.pop()
            cur = None
            continue
        t = line.strip()
        if t:
            stmts.append(t)
    fn.text_hash = h.hexdigest()
    return fn


# --------------------------------------------------------------------------------------
# statement / terminator parsing (lazy, cached per function)
# --------------------------------------------------------------------------------------
BINOPS = {'Add', 'Sub', 'Mul', 'Div', 'Rem', 'BitXor', 'BitAnd', 'BitOr', 'Shl', 'Shr', 'Eq', 'Lt', 'Le',
          'Ne', 'Ge', 'Gt', 'Offset', 'Cmp', 'AddUnchecked', 'SubUnchecked', 'MulUnchecked', 'ShlUnchecked',
          'ShrUnchecked', 'AddWithOverflow', 'SubWithOverflow', 'MulWithOverflow'}
UNOPS = {'Not', 'Neg', 'PtrMetadata'}


def parse_rvalue(s):
    s = s.strip()
    if s.startswith('copy ') or s.startswith('move ') or s.startswith('const '):
        # may be `X as T (Kind)`
        j, st = scan(s, 0, (' as ',))
        if st is not None and s.endswith(')'):
            # cast
            op = parse_operand(s[:j])
            rest = s[j + 4:]
            k = rest.rfind(' (')
            ty = rest[:k]
            ck = rest[k + 2:-1]
            return ('cast', op, ty, ck)
        return ('use', parse_operand(s))
    if s.startswith('&raw const ') or s.startswith('&raw mut '):
        mut = s.startswith('&raw mut ')
        pl, j = parse_place(s, 9 if mut else 11)
        return ('rawptr', pl, mut)
    if s.startswith('&'):
        t = s[1:]
        mut = False
        if t.startswith('mut '):
            mut = True
            t = t[4:]
        elif t.startswith('fake shallow '):
            t = t[len('fake shallow '):]
        pl, j = parse_place(t, 0)
        if j != len(t):
            raise Unsupported("ref trailing: " + s)
        return ('ref', pl, mut)
    m = re.match(r'([A-Za-z]+)\(', s)
    if m and m.group(1) in BINOPS and s.endswith(')'):
        args = split_top(s[m.end():-1])
        if len(args) == 2:
            return ('binop', m.group(1), parse_operand(args[0]), parse_operand(args[1]))
    if m and m.group(1) in UNOPS and s.endswith(')'):
        return ('unop', m.group(1), parse_operand(s[m.end():-1]))
    if s.startswith('discriminant(') and s.endswith(')'):
        pl, j = parse_place(s, len('discriminant('))
        return ('discr', pl)
    if s.startswith('Len(') and s.endswith(')'):
        pl, j = parse_place(s, 4)
        return ('len', pl)
    if s.startswith('[') and s.endswith(']'):
        inner = s[1:-1]
        j, st = scan(inner, 0, ('; ',))
        if st is not None:
            return ('repeat', parse_operand(inner[:j]), inner[j + 2:].strip())
        return ('array', [parse_operand(a) for a in split_top(inner)])
    if s == '()':
        return ('tuple', [])
    if s.startswith('(') and s.endswith(')') and match_close(s, 0) == len(s) - 1:
        return ('tuple', [parse_operand(a) for a in split_top(s[1:-1])])
    if s.startswith('ShallowInitBox('):
        args = split_top(s[len('ShallowInitBox('):-1])
        return ('shallow_box', parse_operand(args[0]), args[1])
    if s.startswith('{coroutine@') or s.startswith('{closure@') or s.startswith('{async block@') or \
            s.startswith('{async closure@') or s.startswith('{coroutine-closure@'):
        k = match_close(s, 0)
        tag = s[:k + 1]
        rest = s[k + 1:].strip()
        fields = []
        if rest.startswith('{'):
            body = rest[1:match_close(rest, 0)].strip()
            for f in split_top(body):
                j, _ = scan(f, 0, (': ',))
                fields.append((f[:j].strip(), parse_operand(f[j + 2:])))
        return ('closure', tag, fields)
    # ADT aggregate: Path { f: op, .. } | Path(op, ..) | Path
    j, st = scan(s, 0, (' {', '('))
    if st == ' {':
        path = s[:j]
        body = s[j + 2:match_close(s, j + 1)].strip()
        fields = []
        for f in split_top(body):
            k, _ = scan(f, 0, (': ',))
            fields.append((f[:k].strip(), parse_operand(f[k + 2:])))
        return ('adt', path, fields, True)
    if st == '(' and s.endswith(')'):
        path = s[:j]
        return ('adt', path, [(None, parse_operand(a)) for a in split_top(s[j + 1:-1])], False)
    if st is None and j == len(s):
        return ('adt', s, [], False)
    raise Unsupported("rvalue: " + s)


def parse_targets(s):
    """Parse `[return: bb1, unwind: bb2]` / `[success: bb1, unwind continue]` / `unwind continue`."""
    out = {}
    s = s.strip()
    if s.startswith('['):
        s = s[1:-1]
        for part in split_top(s):
            if ': ' in part:
                k, v = part.split(': ', 1)
                out[k.strip()] = int(v.strip()[2:]) if v.strip().startswith('bb') else v.strip()
            else:
                k = part.split(' ', 1)
                out[k[0]] = k[1] if len(k) > 1 else None
    else:
        k = s.split(' ', 1)
        out[k[0]] = k[1] if len(k) > 1 else None
    return out


def parse_statement(s):
    if not s.endswith(';'):
        raise Unsupported("stmt: " + s)
    s = s[:-1]
    if s.startswith('StorageLive(') or s.startswith('StorageDead(') or s in ('nop', 'ConstEvalCounter') \
            or s.startswith('Retag(') or s.startswith('PlaceMention(') or s.startswith('FakeRead(') \
            or s.startswith('AscribeUserType(') or s.startswith('Coverage::') or s.startswith('Deinit('):
        return ('nop',)
    if s.startswith('discriminant('):
        j = match_close(s, len('discriminant'))
        pl, _ = parse_place(s, len('discriminant('))
        rest = s[j + 1:].strip()
        if not rest.startswith('= '):
            raise Unsupported("setdiscr: " + s)
        return ('setdiscr', pl, int(rest[2:]))
    if s.startswith('assume(') or s.startswith('copy_nonoverlapping('):
        return ('intrinsic', s)
    pl, j = parse_place(s, 0)
    if not s.startswith(' = ', j):
        raise Unsupported("stmt assign: " + s)
    return ('assign', pl, parse_rvalue(s[j + 3:]))


def parse_terminator(s):
    if s.endswith(';'):
        s = s[:-1]
    if s == 'return':
        return ('return',)
    if s == 'unreachable':
        return ('unreachable',)
    if s == 'resume' or s.startswith('resume'):
        return ('resume',)
    if s.startswith('goto -> bb'):
        return ('goto', int(s[len('goto -> bb'):]))
    if s.startswith('switchInt('):
        k = match_close(s, len('switchInt'))
        op = parse_operand(s[len('switchInt('):k])
        rest = s[k + 1:].strip()
        assert rest.startswith('-> [') and rest.endswith(']'), s
        arms = []
        other = None
        for part in split_top(rest[4:-1]):
            a, b = part.split(': ')
            bb = int(b.strip()[2:])
            if a.strip() == 'otherwise':
                other = bb
            else:
                arms.append((int(a.strip()), bb))
        return ('switch', op, arms, other)
    if s.startswith('drop('):
        k = match_close(s, 4)
        pl, _ = parse_place(s, 5)
        t = parse_targets(s[k + 1:].strip()[3:])
        return ('drop', pl, t.get('return'))
    if s.startswith('assert('):
        k = match_close(s, 6)
        args = split_top(s[7:k])
        cond = args[0]
        neg = False
        if cond.startswith('!'):
            neg = True
            cond = cond[1:]
        msg = args[1] if len(args) > 1 else ''
        t = parse_targets(s[k + 1:].strip()[3:])
        return ('assert', parse_operand(cond), neg, msg, t.get('success'), [a for a in args[2:]])
    if s.startswith('falseEdge') or s.startswith('falseUnwind'):
        raise Unsupported("terminator: " + s)
    # call:  DEST = CALLEE(ARGS) -> [return: bbN, unwind ...]   |  ... -> unwind continue
    j, st = scan(s, 0, (' = ',))
    if st is None:
        raise Unsupported("terminator: " + s)
    dest, dj = parse_place(s, 0)
    rhs = s[j + 3:]
    # find arg list: scan for '(' at depth 0 whose match is followed by ' -> '
    i = 0
    while True:
        i, st2 = scan(rhs, i, ('(',))
        if st2 is None:
            raise Unsupported("call: " + s)
        k = match_close(rhs, i)
        tail = rhs[k + 1:]
        if tail.startswith(' -> ') or tail == '':
            break
        i = k + 1
    callee = rhs[:i]
    args = [parse_operand(a) for a in split_top(rhs[i + 1:k])]
    t = parse_targets(tail[4:]) if tail else {}
    return ('call', dest, callee, args, t.get('return'))
