import re
import z3
from ..interp import Inconclusive, Panic, Infeasible, last_seg, strip_generics
from ..values import *
from .. import mirparse as P


def deref(ip, v):
    """Follow pointers until a non-pointer value."""
    n = 0
    while isinstance(v, Ptr):
        v = ip.load(v.cell, v.path)
        n += 1
        if n > 8:
            raise Inconclusive("pointer chain too deep")
    return v


def seq(ip, v):
    v = deref(ip, v)
    if isinstance(v, (Seq, SeqView)):
        return v
    if isinstance(v, EnumV) and v.ty == 'Cow':
        for k, fs in v.variants.items():
            if fs:
                return seq(ip, fs[0])
    raise Inconclusive("expected a sequence value, got %r" % (v,))


def items(ip, v):
    return seq(ip, v).items


def variant(ip, ev, tyname=None):
    """Name of the active variant of an enum value, forking when the discriminant is symbolic."""
    ev = deref(ip, ev)
    if not isinstance(ev, EnumV):
        raise Inconclusive("expected enum, got %r" % (ev,))
    ty = tyname or ev.ty
    info = ip.enum_info(ty)
    if info is None:
        raise Inconclusive("unknown enum %s" % ty)
    d = ev.discr
    if d.concrete:
        sv = d.sint()
        for n, dv in info:
            if dv == sv or (dv & ((1 << d.w) - 1)) == d.v:
                return n
        raise Inconclusive("bad discriminant %d for %s" % (d.v, ty))
    for n, dv in info:
        if ip.branch(d.v == z3.BitVecVal(dv, d.w), 'variant'):
            return n
    raise Infeasible("no variant")


def payload(ev, name):
    return ev.variants.get(name, [])


def some(ip, v):
    return EnumV(BV(64, 1), {'Some': [v]}, 'Option')


def none(ip):
    return EnumV(BV(64, 0), {}, 'Option')


def ok(ip, v):
    return EnumV(BV(64, 0), {'Ok': [v]}, 'Result')


def err(ip, v):
    return EnumV(BV(64, 1), {'Err': [v]}, 'Result')


def unit():
    return Agg([], '()')


def boolv(b):
    return mkbool(b)


def seq_eq(ip, a, b):
    """z3 Bool / Python bool: element-wise equality of two byte sequences (concrete lengths)."""
    ai, bi = items(ip, a), items(ip, b)
    if len(ai) != len(bi):
        return False
    conds = []
    for x, y in zip(ai, bi):
        c = val_eq(ip, x, y)
        if c is False:
            return False
        if c is not True:
            conds.append(c)
    if not conds:
        return True
    return z3.And(*conds) if len(conds) > 1 else conds[0]


def val_eq(ip, x, y):
    """Structural equality of two values as Python bool or z3 Bool."""
    x = deref(ip, x) if isinstance(x, Ptr) else x
    y = deref(ip, y) if isinstance(y, Ptr) else y
    if isinstance(x, BV) and isinstance(y, BV):
        if x.concrete and y.concrete:
            return x.v == y.v
        return z3.simplify(x.z() == y.z()) if False else (x.z() == y.z())
    if isinstance(x, (Seq, SeqView)) and isinstance(y, (Seq, SeqView)):
        return seq_eq(ip, x, y)
    if isinstance(x, Agg) and isinstance(y, Agg):
        if len(x.fields) != len(y.fields):
            return False
        return conj([val_eq(ip, a, b) for a, b in zip(x.fields, y.fields)])
    if isinstance(x, EnumV) and isinstance(y, EnumV):
        dx, dy = x.discr, y.discr
        if dx.concrete and dy.concrete:
            if dx.v != dy.v:
                return False
            cs = []
            for k in x.variants:
                if k in y.variants and x.variants[k] and y.variants[k]:
                    cs.append(conj([val_eq(ip, a, b) for a, b in zip(x.variants[k], y.variants[k])]))
            return conj(cs)
        # symbolic discriminants: equal discr and (per variant with payload) equal payload
        w = max(dx.w, dy.w)
        deq = dx.z() == dy.z() if dx.w == dy.w else z3.SignExt(w - dx.w, dx.z()) == z3.SignExt(w - dy.w, dy.z())
        cs = [deq]
        info = ip.enum_info(x.ty or y.ty) or []
        for n, dv in info:
            px, py = x.variants.get(n), y.variants.get(n)
            if px and py:
                pe = conj([val_eq(ip, a, b) for a, b in zip(px, py)])
                if pe is not True:
                    cs.append(z3.Implies(dx.z() == z3.BitVecVal(dv, dx.w), pe if pe is not False else z3.BoolVal(False)))
        return conj(cs)
    if isinstance(x, MapV) and isinstance(y, MapV):
        raise Inconclusive("map equality")
    if x is y:
        return True
    raise Inconclusive("val_eq on %r / %r" % (x, y))


def conj(cs):
    out = []
    for c in cs:
        if c is False:
            return False
        if c is True:
            continue
        out.append(c)
    if not out:
        return True
    return z3.And(*out) if len(out) > 1 else out[0]


def disj(cs):
    out = []
    for c in cs:
        if c is True:
            return True
        if c is False:
            continue
        out.append(c)
    if not out:
        return False
    return z3.Or(*out) if len(out) > 1 else out[0]


def neg(c):
    if isinstance(c, bool):
        return not c
    return z3.Not(c)


def concrete_int(ip, v, what='value', limit=64):
    """Force an integer value to be concrete by case-splitting over [0, limit)."""
    if v.concrete:
        return v.v
    for k in range(limit):
        if ip.branch(v.v == z3.BitVecVal(k, v.w), 'concretise ' + what):
            return k
    raise Inconclusive("value %s exceeds concretisation bound %d" % (what, limit))


def bytes_of(ip, v):
    """Concrete python bytes of a fully concrete sequence, else None."""
    out = bytearray()
    for x in items(ip, v):
        if not (isinstance(x, BV) and x.concrete):
            return None
        out.append(x.v)
    return bytes(out)


def mkstr(s, kind='string'):
    if isinstance(s, str):
        s = s.encode()
    return Seq([BV(8, b) for b in s], kind)


def strref(s):
    return Ptr(Cell(mkstr(s, 'str'), 'lit'), ())


def generic_args(callee):
    """Return list of top-level generic args of the *last* `::<...>` group, or []."""
    i = callee.rfind('::<')
    if i < 0:
        return []
    k = P.match_close(callee, i + 2)
    return P.split_top(callee[i + 3:k])
