"""Iterators, HashMap/BTreeMap/HashSet, lru::LruCache, hashing (uninterpreted), ranges."""
import re
import z3
from ..interp import model, Inconclusive, Panic, Infeasible, last_seg
from ..values import *
from .. import mirparse as P
from .util import *
from .strings import IterV, seq_items


# ----------------------------------------------------------------------------- ranges
@model(r'^<(?:std::ops::)?Range<(\w+)> as (?:std::iter::)?Iterator>::next$')
def m_range_next(c, p):
    ip = c.ip
    r = deref(ip, p)
    it = int_type(c.m.group(1))
    a, b = r.fields[0], r.fields[1]
    if ip.branch(ip.binop('Lt', a, b, it[1], c.callee), 'range_next'):
        r.fields[0] = ip.binop('Add', a, BV(a.w, 1), it[1], c.callee)
        return some(ip, a)
    return none(ip)


@model(r'^<(?:std::ops::)?RangeInclusive<(\w+)> as (?:std::iter::)?Iterator>::next$')
def m_range_incl_next(c, p):
    ip = c.ip
    r = deref(ip, p)
    it = int_type(c.m.group(1))
    a, b = r.fields[0], r.fields[1]
    done = r.fields[2] if len(r.fields) > 2 else BV(1, 0)
    if done.concrete and done.v:
        return none(ip)
    if ip.branch(ip.binop('Lt', a, b, it[1], c.callee), 'range_next'):
        r.fields[0] = ip.binop('Add', a, BV(a.w, 1), it[1], c.callee)
        return some(ip, a)
    if ip.branch(ip.binop('Eq', a, b, it[1], c.callee), 'range_last'):
        if len(r.fields) > 2:
            r.fields[2] = BV(1, 1)
        else:
            r.fields.append(BV(1, 1))
        return some(ip, a)
    return none(ip)


@model(r'^(?:std::ops::)?RangeInclusive::<.*>::new$')
def m_range_incl_new(c, a, b):
    return Agg([a, b, BV(1, 0)], 'RangeInclusive')


@model(r'^<(?:std::ops::)?Range(?:Inclusive)?<.*> as (?:std::iter::)?IntoIterator>::into_iter$|^<.*(?<![A-Za-z])(?:Iter|IntoIter|Map|Filter|Enumerate|Zip|Rev|Chars|Skip|Take|Peekable|Cloned|Copied|Drain|Keys|Values|ValuesMut|IterMut|Chain|FilterMap|FlatMap|Flatten|SplitWhitespace|Split|SplitN|Lines)<.*> as (?:std::iter::)?IntoIterator>::into_iter$')
def m_into_iter_identity(c, x):
    return x


def as_iter(ip, x):
    if isinstance(x, IterV):
        return x
    if isinstance(x, Ptr):
        t = ip.load(x.cell, x.path)
        if isinstance(t, Ptr):
            return as_iter(ip, t)
        if isinstance(t, (Seq, SeqView)):
            # iterating a borrowed collection yields element references
            base = t.base if isinstance(t, SeqView) else t
            off = t.start if isinstance(t, SeqView) else 0
            cell = Cell(base, 'iter_base')
            return IterV([Ptr(cell, (('i', BV(64, off + i)),)) for i in range(len(t.items))])
    v = deref(ip, x)
    if isinstance(v, IterV):
        return v
    if isinstance(v, Agg) and (v.ty or '').endswith('Range') and len(v.fields) == 2:
        a, b = v.fields
        if a.concrete and b.concrete:
            return IterV([BV(a.w, k) for k in range(a.v, b.v)])
        lo = concrete_int(ip, a, 'range start', 64)
        hi = concrete_int(ip, b, 'range end', 64)
        return IterV([BV(a.w, k) for k in range(lo, hi)])
    if isinstance(v, (Seq, SeqView)):
        return IterV(list(v.items))
    raise Inconclusive("not an iterator: %r" % (v,))


@model(r'^<.* as (?:std::iter::)?Iterator>::next$|^<.* as (?:std::iter::)?DoubleEndedIterator>::next_back$|^(?:std::iter::)?Peekable::<.*>::(peek|next_if)')
def m_iter_next(c, p, *a):
    ip = c.ip
    it = deref(ip, p)
    if not isinstance(it, IterV):
        raise Inconclusive("Iterator::next on %r (%s)" % (it, c.callee))
    if 'peek' in c.callee:
        if it.pos >= len(it.items):
            return none(ip)
        return some(ip, Ptr(Cell(it.items[it.pos], 'peek'), ()))
    if it.pos >= len(it.items):
        return none(ip)
    if 'next_back' in c.callee:
        return some(ip, it.items.pop())
    v = it.items[it.pos]
    it.pos += 1
    return some(ip, v)


def rest(it):
    return it.items[it.pos:]


@model(r'^<.* as (?:std::iter::)?Iterator>::(map|filter|filter_map|enumerate|rev|zip|skip|take|peekable|cloned|copied|chain|by_ref|flat_map|flatten|skip_while|take_while|inspect|fuse)(?:::<.*>)?$')
def m_iter_adaptor(c, x, *a):
    ip = c.ip
    op = c.m.group(1)
    it = as_iter(ip, x)
    xs = rest(it)
    if op == 'map':
        return IterV([ip.call_value(a[0], [v]) for v in xs])
    if op == 'inspect':
        for v in xs:
            ip.call_value(a[0], [Ptr(Cell(v, 'it'), ())])
        return IterV(xs)
    if op == 'filter':
        out = []
        for v in xs:
            if ip.branch(ip.call_value(a[0], [Ptr(Cell(v, 'it'), ())]), 'filter'):
                out.append(v)
        return IterV(out)
    if op == 'filter_map':
        out = []
        for v in xs:
            r = ip.call_value(a[0], [v])
            if variant(ip, r, 'Option') == 'Some':
                out.append(payload(r, 'Some')[0])
        return IterV(out)
    if op in ('flat_map', 'flatten'):
        out = []
        for v in xs:
            r = ip.call_value(a[0], [v]) if op == 'flat_map' else v
            if isinstance(r, EnumV) and r.ty == 'Option':
                if variant(ip, r, 'Option') == 'Some':
                    out.append(payload(r, 'Some')[0])
            else:
                out.extend(rest(as_iter(ip, r)))
        return IterV(out)
    if op == 'enumerate':
        return IterV([Agg([BV(64, i), v], 'tuple') for i, v in enumerate(xs)])
    if op == 'rev':
        return IterV(list(reversed(xs)))
    if op == 'zip':
        ys = rest(as_iter(ip, a[0]))
        return IterV([Agg([u, v], 'tuple') for u, v in zip(xs, ys)])
    if op == 'chain':
        ys = rest(as_iter(ip, a[0]))
        return IterV(xs + ys)
    if op in ('skip', 'take'):
        k = concrete_int(ip, a[0], op, len(xs) + 2) if not a[0].concrete else a[0].v
        return IterV(xs[k:] if op == 'skip' else xs[:k])
    if op in ('skip_while', 'take_while'):
        k = 0
        while k < len(xs) and ip.branch(ip.call_value(a[0], [Ptr(Cell(xs[k], 'it'), ())]), op):
            k += 1
        return IterV(xs[k:] if op == 'skip_while' else xs[:k])
    if op in ('cloned', 'copied'):
        return IterV([deep_clone(deref(ip, v)) for v in xs])
    if op in ('peekable', 'fuse'):
        return IterV(xs)
    if op == 'by_ref':
        return x
    raise Inconclusive("iterator adaptor " + op)


@model(r'^<.* as (?:std::iter::)?Iterator>::(position|any|all|find|find_map|count|sum|last|nth|max|min|for_each|fold|try_fold|try_for_each|max_by_key|min_by_key|eq)(?:::<.*>)?$|^<.* as (?:std::iter::)?DoubleEndedIterator>::(rposition|rfind)(?:::<.*>)?$')
def m_iter_consumer(c, x, *a):
    ip = c.ip
    op = c.m.group(1) or c.m.group(2)
    it = as_iter(ip, x)
    xs = rest(it)
    if op == 'position':
        for i, v in enumerate(xs):
            it.pos += 1
            if ip.branch(ip.call_value(a[0], [v]), 'position'):
                return some(ip, BV(64, i))
        return none(ip)
    if op == 'any':
        for v in xs:
            it.pos += 1
            if ip.branch(ip.call_value(a[0], [v]), 'any'):
                return BV(1, 1)
        return BV(1, 0)
    if op == 'all':
        for v in xs:
            it.pos += 1
            if not ip.branch(ip.call_value(a[0], [v]), 'all'):
                return BV(1, 0)
        return BV(1, 1)
    if op == 'find':
        for v in xs:
            it.pos += 1
            if ip.branch(ip.call_value(a[0], [Ptr(Cell(v, 'it'), ())]), 'find'):
                return some(ip, v)
        return none(ip)
    if op == 'find_map':
        for v in xs:
            it.pos += 1
            r = ip.call_value(a[0], [v])
            if variant(ip, r, 'Option') == 'Some':
                return r
        return none(ip)
    if op == 'count':
        it.pos = len(it.items)
        return BV(64, len(xs))
    if op == 'last':
        it.pos = len(it.items)
        return some(ip, xs[-1]) if xs else none(ip)
    if op == 'nth':
        k = concrete_int(ip, a[0], 'nth', len(xs) + 2) if not a[0].concrete else a[0].v
        if k < len(xs):
            it.pos += k + 1
            return some(ip, xs[k])
        it.pos = len(it.items)
        return none(ip)
    if op == 'for_each':
        for v in xs:
            ip.call_value(a[0], [v])
        it.pos = len(it.items)
        return unit()
    if op == 'fold':
        acc = a[0]
        for v in xs:
            acc = ip.call_value(a[1], [acc, v])
        it.pos = len(it.items)
        return acc
    if op == 'sum':
        it.pos = len(it.items)
        if not xs:
            t = int_type(last_seg(c.dest_ty or 'usize')) or (64, False)
            return BV(t[0], 0)
        acc = xs[0]
        for v in xs[1:]:
            acc = ip.binop('Add', acc, v, False, c.callee)
        return acc
    if op in ('max', 'min'):
        it.pos = len(it.items)
        if not xs:
            return none(ip)
        best = xs[0]
        for v in xs[1:]:
            a, b = deref(ip, v), deref(ip, best)
            if not (isinstance(a, BV) and isinstance(b, BV)):
                raise Inconclusive("iterator %s over non-integers" % op)
            better = ip.branch(ip.binop('Lt' if op == 'min' else 'Ge', a, b, False, op), op)
            if better:
                best = v
        return some(ip, best)
    raise Inconclusive("iterator consumer " + op)


@model(r'^<.* as (?:std::iter::)?Iterator>::collect::<(.*)>$|^<(.*) as (?:std::iter::)?FromIterator<.*>>::from_iter::<')
def m_iter_collect(c, x):
    ip = c.ip
    ty = last_seg(c.m.group(1) or c.m.group(2))
    xs = rest(as_iter(ip, x))
    if ty.startswith('Vec<') or ty.startswith('VecDeque<'):
        return Seq(xs, 'vec')
    if ty == 'String':
        out = []
        for v in xs:
            if isinstance(v, BV):
                from .core import encode_char
                out.extend(encode_char(ip, v) if v.w == 32 else [v])
            else:
                out.extend(items(ip, v))
        return Seq(out, 'string')
    if ty == 'BytesMut':
        return Seq(xs, 'bytesmut')
    if ty.startswith('HashMap<') or ty.startswith('BTreeMap<'):
        m = MapV(ty.split('<')[0].lower())
        for kv in xs:
            map_insert(ip, m, kv.fields[0], kv.fields[1])
        return m
    if ty.startswith('HashSet<') or ty.startswith('BTreeSet<'):
        m = MapV(ty.split('<')[0].lower())
        for k in xs:
            map_insert(ip, m, k, unit())
        return m
    if ty.startswith('Result<'):
        inner = ty[len('Result<'):]
        out = []
        for v in xs:
            if variant(ip, v, 'Result') == 'Err':
                return v
            out.append(payload(v, 'Ok')[0])
        return ok(ip, Seq(out, 'vec'))
    if ty.startswith('Option<'):
        out = []
        for v in xs:
            if variant(ip, v, 'Option') == 'None':
                return v
            out.append(payload(v, 'Some')[0])
        return some(ip, Seq(out, 'vec'))
    raise Inconclusive("collect into " + ty)


# ----------------------------------------------------------------------------- maps
def sort_btree(ip, m):
    """BTreeMap/BTreeSet iterate in key order: sort when all keys are concrete byte strings or integers."""
    if not m.kind.startswith('btree'):
        return
    ks = []
    for k, _ in m.entries:
        if isinstance(k, BV) and k.concrete:
            ks.append((0, k.v))
        else:
            try:
                b = bytes_of(ip, k)
            except Inconclusive:
                b = None
            if b is None:
                if len(m.entries) > 1:
                    ip.env.setdefault('assumptions', set()).add('BTreeMap with symbolic keys iterated in insertion order')
                return
            ks.append((1, b))
    order = sorted(range(len(ks)), key=lambda i: ks[i])
    m.entries[:] = [m.entries[i] for i in order]


def key_eq(ip, a, b):
    """Key equality: the key type's own PartialEq::eq from MIR when it has one (e.g. config::Address skips its
    stats fields), structural equality otherwise."""
    x = deref(ip, a) if isinstance(a, Ptr) else a
    y = deref(ip, b) if isinstance(b, Ptr) else b
    if isinstance(x, Agg) and isinstance(y, Agg) and x.ty and x.ty == y.ty and x.ty in ip.prog.src.structs:
        cands = ip.prog.by_key.get('<%s as PartialEq>::eq' % x.ty, [])
        if len(cands) == 1:
            r = ip.call_function(cands[0], [Ptr(Cell(x, 'ka'), ()), Ptr(Cell(y, 'kb'), ())])
            return as_cond(r)
    return val_eq(ip, x, y)


def map_find(ip, m, k):
    """Index of the entry whose key equals k (forking on symbolic equality) or None."""
    for i, (ek, cell) in enumerate(m.entries):
        if ip.branch(key_eq(ip, ek, k), 'map_key'):
            return i
    return None


def map_insert(ip, m, k, v):
    i = map_find(ip, m, k)
    if i is not None:
        old = m.entries[i][1].val
        m.entries[i][1].val = v
        return old
    m.entries.append([k, Cell(v, 'mapval')])
    return None


def mapobj(ip, p):
    m = deref(ip, p)
    if not isinstance(m, MapV):
        raise Inconclusive("expected map, got %r" % (m,))
    return m


MAPT = r'(?:std::collections::)?(?:HashMap|BTreeMap|hash_map::HashMap|btree_map::BTreeMap)'
SETT = r'(?:std::collections::)?(?:HashSet|BTreeSet)'


@model(r'^' + MAPT + r'::<.*>::(new|with_capacity|default)$|^' + SETT + r'::<.*>::(new|with_capacity)$')
def m_map_new(c, *a):
    kind = 'hashset' if 'Set' in c.callee else ('btreemap' if 'BTree' in c.callee else 'hashmap')
    return MapV(kind)


@model(r'^' + MAPT + r'::<.*>::(insert)$')
def m_map_insert(c, p, k, v):
    ip = c.ip
    old = map_insert(ip, mapobj(ip, p), k, v)
    return none(ip) if old is None else some(ip, old)


@model(r'^' + SETT + r'::<.*>::(insert)$')
def m_set_insert(c, p, k):
    ip = c.ip
    m = mapobj(ip, p)
    i = map_find(ip, m, k)
    if i is not None:
        return BV(1, 0)
    m.entries.append([k, Cell(unit(), 'setval')])
    return BV(1, 1)


@model(r'^' + MAPT + r'::<.*>::(get|get_mut)::<.*>$')
def m_map_get(c, p, k):
    ip = c.ip
    m = mapobj(ip, p)
    kk = deref_key(ip, k)
    i = map_find(ip, m, kk)
    if i is None:
        return none(ip)
    return some(ip, Ptr(m.entries[i][1], ()))


def deref_key(ip, k):
    """Borrowed lookup key -> comparable value (a &str/&String stays a pointer to a Seq: val_eq derefs)."""
    return k


@model(r'^' + MAPT + r'::<.*>::(contains_key)::<.*>$|^' + SETT + r'::<.*>::(contains)::<.*>$')
def m_map_contains(c, p, k):
    ip = c.ip
    m = mapobj(ip, p)
    return BV(1, int(map_find(ip, m, k) is not None))


@model(r'^' + MAPT + r'::<.*>::(remove)::<.*>$')
def m_map_remove(c, p, k):
    ip = c.ip
    m = mapobj(ip, p)
    i = map_find(ip, m, k)
    if i is None:
        return none(ip)
    e = m.entries.pop(i)
    return some(ip, e[1].val)


@model(r'^' + MAPT + r'::<.*>::(retain)::<.*>$')
def m_map_retain(c, p, f):
    """HashMap/BTreeMap::retain(|&K, &mut V| -> bool): keep the entries for which the closure returns true."""
    ip = c.ip
    m = mapobj(ip, p)
    keep = []
    for e in list(m.entries):
        if ip.branch(ip.call_value(f, [Ptr(Cell(e[0], 'retain_key'), ()), Ptr(e[1], ())]), 'retain'):
            keep.append(e)
    m.entries[:] = keep
    return unit()


@model(r'^' + SETT + r'::<.*>::(remove)::<.*>$')
def m_set_remove(c, p, k):
    ip = c.ip
    m = mapobj(ip, p)
    i = map_find(ip, m, k)
    if i is None:
        return BV(1, 0)
    m.entries.pop(i)
    return BV(1, 1)


@model(r'^' + MAPT + r'::<.*>::(len|is_empty|clear)$|^' + SETT + r'::<.*>::(len|is_empty|clear)$|^(?:lru::)?LruCache::<.*>::(len|is_empty|clear)$')
def m_map_len(c, p):
    ip = c.ip
    op = [g for g in c.m.groups() if g][0]
    m = mapobj(ip, p)
    if op == 'len':
        return BV(64, len(m.entries))
    if op == 'is_empty':
        return BV(1, int(not m.entries))
    m.entries.clear()
    return unit()


@model(r'^' + MAPT + r'::<.*>::(iter|iter_mut)$|^<&(?:mut )?' + MAPT + r'<.*> as (?:std::iter::)?IntoIterator>::into_iter$')
def m_map_iter(c, p):
    ip = c.ip
    m = mapobj(ip, p)
    sort_btree(ip, m)
    return IterV([Agg([Ptr(Cell(k, 'mapkey'), ()), Ptr(cell, ())], 'tuple') for k, cell in m.entries])


@model(r'^<' + MAPT + r'<.*> as (?:std::iter::)?IntoIterator>::into_iter$')
def m_map_into_iter(c, m):
    sort_btree(c.ip, m)
    return IterV([Agg([k, cell.val], 'tuple') for k, cell in m.entries])


@model(r'^' + MAPT + r'::<.*>::(keys|into_keys)$|^' + SETT + r'::<.*>::(iter)$|^<&' + SETT + r'<.*> as (?:std::iter::)?IntoIterator>::into_iter$')
def m_map_keys(c, p):
    ip = c.ip
    m = mapobj(ip, p)
    sort_btree(ip, m)
    return IterV([Ptr(Cell(k, 'mapkey'), ()) for k, cell in m.entries])


@model(r'^' + MAPT + r'::<.*>::(values|values_mut)$')
def m_map_values(c, p):
    ip = c.ip
    m = mapobj(ip, p)
    sort_btree(ip, m)
    return IterV([Ptr(cell, ()) for k, cell in m.entries])


@model(r'^<' + MAPT + r'<.*> as (?:std::ops::)?Index<.*>>::index$')
def m_map_index(c, p, k):
    ip = c.ip
    m = mapobj(ip, p)
    i = map_find(ip, m, k)
    if i is None:
        raise Panic(c.callee, 'key not found in map')
    return Ptr(m.entries[i][1], ())


@model(r'^' + MAPT + r'::<.*>::(entry)$')
def m_map_entry(c, p, k):
    ip = c.ip
    m = mapobj(ip, p)
    i = map_find(ip, m, k)
    return Opaque('Entry', 'entry', (m, k, i))


@model(r'^(?:std::collections::)?(?:hash_map|btree_map)::Entry::<.*>::(or_insert|or_insert_with|or_default)(?:::<.*>)?$')
def m_entry_or_insert(c, e, *a):
    ip = c.ip
    m, k, i = e.data
    if i is None:
        if c.m.group(1) == 'or_insert':
            v = a[0]
        elif c.m.group(1) == 'or_insert_with':
            v = ip.call_value(a[0], [])
        else:
            from .core import default_of
            v = default_of(ip, (c.dest_ty or '').replace('&mut ', ''), c)
        m.entries.append([k, Cell(v, 'mapval')])
        i = len(m.entries) - 1
    return Ptr(m.entries[i][1], ())


# ----------------------------------------------------------------------------- lru::LruCache (most recent last)
@model(r'^(?:lru::)?LruCache::<.*>::new$')
def m_lru_new(c, cap):
    ip = c.ip
    capv = cap
    if isinstance(cap, Agg):
        capv = cap.fields[0]
    n = concrete_int(ip, capv, 'lru capacity', 16)
    return MapV('lru', cap=n)


@model(r'^(?:std::num::)?(?:NonZero::<\w+>|NonZeroUsize|NonZeroU\d+)::new$')
def m_nonzero_new(c, v):
    ip = c.ip
    if ip.branch(v.z() == 0 if not v.concrete else v.v == 0, 'nonzero'):
        return none(ip)
    return some(ip, Agg([v], 'NonZero'))


@model(r'^(?:std::num::)?(?:NonZero::<\w+>|NonZeroUsize|NonZeroU\d+)::(get|new_unchecked)$')
def m_nonzero_get(c, v):
    if c.m.group(1) == 'get':
        return v.fields[0] if isinstance(v, Agg) else v
    return Agg([v], 'NonZero')


@model(r'^(?:lru::)?LruCache::<.*>::(push|put)$')
def m_lru_push(c, p, k, v):
    """lru 0.12 contract: if the key exists, replace it, move it to most-recent and return
    Some((old_k, old_v)) [push] / Some(old_v) [put]; else if full evict least-recent and return it
    [push] / None [put]; else None."""
    ip = c.ip
    m = mapobj(ip, p)
    op = c.m.group(1)
    i = map_find(ip, m, k)
    if i is not None:
        ek, cell = m.entries.pop(i)
        m.entries.append([k, Cell(v, 'lruval')])
        return some(ip, Agg([ek, cell.val], 'tuple')) if op == 'push' else some(ip, cell.val)
    ev = None
    if m.cap is not None and len(m.entries) >= m.cap:
        ev = m.entries.pop(0)
    m.entries.append([k, Cell(v, 'lruval')])
    if ev is not None and op == 'push':
        return some(ip, Agg([ev[0], ev[1].val], 'tuple'))
    return none(ip)


@model(r'^(?:lru::)?LruCache::<.*>::(get|get_mut|promote)::<.*>$')
def m_lru_get(c, p, k):
    ip = c.ip
    m = mapobj(ip, p)
    i = map_find(ip, m, k)
    if i is None:
        return none(ip) if c.m.group(1) != 'promote' else unit()
    e = m.entries.pop(i)
    m.entries.append(e)
    if c.m.group(1) == 'promote':
        return unit()
    return some(ip, Ptr(e[1], ()))


@model(r'^(?:lru::)?LruCache::<.*>::(contains|peek)::<.*>$')
def m_lru_contains(c, p, k):
    ip = c.ip
    m = mapobj(ip, p)
    i = map_find(ip, m, k)
    if c.m.group(1) == 'contains':
        return BV(1, int(i is not None))
    return none(ip) if i is None else some(ip, Ptr(m.entries[i][1], ()))


@model(r'^(?:lru::)?LruCache::<.*>::(pop)::<.*>$')
def m_lru_pop(c, p, k):
    ip = c.ip
    m = mapobj(ip, p)
    i = map_find(ip, m, k)
    if i is None:
        return none(ip)
    e = m.entries.pop(i)
    return some(ip, e[1].val)


@model(r'^(?:lru::)?LruCache::<.*>::(pop_lru)$')
def m_lru_pop_lru(c, p):
    ip = c.ip
    m = mapobj(ip, p)
    if not m.entries:
        return none(ip)
    e = m.entries.pop(0)
    return some(ip, Agg([e[0], e[1].val], 'tuple'))


@model(r'^(?:lru::)?LruCache::<.*>::(iter)$')
def m_lru_iter(c, p):
    ip = c.ip
    m = mapobj(ip, p)
    return IterV([Agg([Ptr(Cell(k, 'k'), ()), Ptr(cell, ())], 'tuple') for k, cell in reversed(m.entries)])


# ----------------------------------------------------------------------------- hashing: uninterpreted
_HASH_UF = {}


def hash_uf(n):
    if n not in _HASH_UF:
        _HASH_UF[n] = z3.Function('siphash_%d' % n, *([z3.BitVecSort(8)] * n + [z3.BitVecSort(64)])) if n else None
    return _HASH_UF[n]


@model(r'^(?:std::collections::hash_map::|std::hash::)?DefaultHasher::(new|default)$|^<(?:std::collections::hash_map::|std::hash::)?DefaultHasher as Default>::default$')
def m_hasher_new(c):
    return Seq([], 'hasher')


@model(r'^<(.*) as (?:std::hash::)?Hash>::hash::<.*>$')
def m_hash_value(c, p, h):
    """Feed a value into the hasher: the exact byte stream std would write (length-prefix-free strings get a
    0xff terminator like std's `str::hash`)."""
    ip = c.ip
    cands = ip.prog.lookup(c.callee)
    if cands:
        return ip.call_function(cands[0], [p, h])
    hs = seq(ip, h)
    feed_hash(ip, hs, deref(ip, p), last_seg(c.m.group(1)))
    return unit()


def feed_hash(ip, hs, v, ty=''):
    if isinstance(v, BV):
        n = max(1, v.w // 8)
        if v.w == 1:
            hs.items.append(BV(8, v.v) if v.concrete else bv(8, z3.ZeroExt(7, v.v)))
            return
        from .strings import int_bytes_be
        hs.items.extend(reversed(int_bytes_be(v, n)))
        return
    if isinstance(v, (Seq, SeqView)):
        if v.kind in ('string', 'str'):
            hs.items.extend(v.items)
            hs.items.append(BV(8, 0xff))
        else:
            from .strings import int_bytes_be
            hs.items.extend(reversed(int_bytes_be(BV(64, len(v.items)), 8)))
            for x in v.items:
                feed_hash(ip, hs, x)
        return
    if isinstance(v, Agg):
        for f in v.fields:
            feed_hash(ip, hs, f)
        return
    if isinstance(v, EnumV):
        feed_hash(ip, hs, v.discr if v.discr.w == 64 else BV(64, v.discr.v) if v.discr.concrete else bv(64, z3.SignExt(64 - v.discr.w, v.discr.v)))
        if v.discr.concrete:
            for k, fs in v.variants.items():
                for f in fs:
                    feed_hash(ip, hs, f)
            return
        raise Inconclusive("hash of enum with symbolic discriminant")
    if isinstance(v, Ptr):
        feed_hash(ip, hs, deref(ip, v))
        return
    if isinstance(v, MapV):
        sort_btree(ip, v)
        from .strings import int_bytes_be
        hs.items.extend(reversed(int_bytes_be(BV(64, len(v.entries)), 8)))
        for k, cell in v.entries:
            feed_hash(ip, hs, k)
            feed_hash(ip, hs, cell.val)
        return
    if isinstance(v, Opaque):
        # opaque values contribute a fixed tag (they are never the varying part of a harness)
        hs.items.extend(BV(8, b) for b in (v.ty or 'opaque').encode()[:8])
        return
    raise Inconclusive("hash of %r" % (v,))


@model(r'^<(?:std::collections::hash_map::|std::hash::)?DefaultHasher as (?:std::hash::)?Hasher>::(write|write_u8|write_u32|write_u64|write_usize|write_i32|write_i64|write_str)$')
def m_hasher_write(c, h, v):
    ip = c.ip
    hs = seq(ip, h)
    if isinstance(v, BV):
        feed_hash(ip, hs, v)
    else:
        hs.items.extend(items(ip, v))
        if c.m.group(1) == 'write_str':
            hs.items.append(BV(8, 0xff))
    return unit()


@model(r'^<(?:std::collections::hash_map::|std::hash::)?DefaultHasher as (?:std::hash::)?Hasher>::finish$')
def m_hasher_finish(c, h):
    ip = c.ip
    hs = seq(ip, h)
    n = len(hs.items)
    if n == 0:
        return BV(64, 0x1234)
    ip.env.setdefault('hash_inputs', []).append(list(hs.items))
    if all(x.concrete for x in hs.items):
        # a concrete byte stream gets a concrete value (an ideal hash: distinct streams -> distinct values; SipHash collisions are
        # outside every claim); the uninterpreted function is pinned to it so that symbolic streams stay consistent with it
        import hashlib
        val = int.from_bytes(hashlib.sha256(bytes(x.v for x in hs.items)).digest()[:8], 'big')
        key = ('pinned', n, bytes(x.v for x in hs.items))
        pins = ip.env.setdefault('hash_pins', set())
        if key not in pins:
            pins.add(key)
            ip.assume(hash_uf(n)(*[x.z() for x in hs.items]) == z3.BitVecVal(val, 64))
        r = BV(64, val)
        ip.env['last_hash_value'] = r
        return r
    r = bv(64, hash_uf(n)(*[x.z() for x in hs.items]))
    ip.env['last_hash_value'] = r
    return r


@model(r'^' + SETT + r'::<.*>::(first|last)$')
def m_set_first(c, p):
    """BTreeSet::first/last: minimum / maximum element (ordering decided by forking on comparisons)."""
    ip = c.ip
    m = mapobj(ip, p)
    if not m.entries:
        return none(ip)
    best = m.entries[0][0]
    for k, _ in m.entries[1:]:
        if not (isinstance(k, BV) and isinstance(best, BV)):
            raise Inconclusive("BTreeSet ordering on non-integers")
        lt = ip.binop('Lt', k, best, False, 'btreeset')
        take = ip.branch(lt if c.m.group(1) == 'first' else mkbool(neg(as_cond(lt))), 'btreeset_order')
        if take:
            best = k
    return some(ip, Ptr(Cell(best, 'setelt'), ()))
