"""core::fmt: Arguments templates (rustc 1.95 byte-template encoding), Argument, format!, Formatter,
Display of primitives; Display of pgcat types is executed from their MIR."""
import re
import z3
from ..interp import model, Inconclusive, Panic, last_seg
from ..values import *
from .. import mirparse as P
from .util import *
from .core import encode_char


@model(r'^(?:core::fmt::rt::)?Argument::<.*>::new_(display|debug|lower_hex|upper_hex|lower_exp|octal|binary|pointer)::<(.*)>$')
def m_argument_new(c, p):
    return Opaque('Argument', c.m.group(1), (c.m.group(2), p))


@model(r'^(?:core::fmt::rt::)?Argument::<.*>::(from_usize|none)$')
def m_argument_usize(c, *p):
    return Opaque('Argument', 'usize', ('usize', p[0] if p else None))


@model(r'^(?:std::fmt::|core::fmt::)?Arguments::<.*>::new::<\d+, \d+>$')
def m_arguments_new(c, template, args):
    ip = c.ip
    t = items(ip, template)
    a = items(ip, args)
    return Opaque('Arguments', 'fmt', ([x.v for x in t], list(a)))


@model(r'^(?:std::fmt::|core::fmt::)?Arguments::<.*>::(from_str|new_const|from_str_nonconst)(?:::<\d+>)?$')
def m_arguments_from_str(c, s):
    ip = c.ip
    v = deref(ip, s)
    if isinstance(v, (Seq, SeqView)) and v.items and isinstance(v.items[0], Ptr):
        out = []
        for piece in v.items:
            out.extend(items(ip, piece))
        return Opaque('Arguments', 'lit', out)
    return Opaque('Arguments', 'lit', list(items(ip, s)))


@model(r'^(?:std::fmt::|core::fmt::)?Arguments::<.*>::(as_str|as_statically_known_str)$')
def m_arguments_as_str(c, a):
    ip = c.ip
    a = deref(ip, a) if isinstance(a, Ptr) else a
    if a.tag == 'lit':
        return some(ip, Ptr(Cell(Seq(list(a.data), 'str'), 'lit'), ()))
    return none(ip)


def render_int(ip, v, signed):
    """Decimal rendering of an integer value as a list of byte BVs."""
    if v.concrete:
        n = v.sint() if signed else v.v
        return [BV(8, b) for b in str(n).encode()]
    w = v.w
    out = []
    mag = v
    if signed:
        if ip.branch(v.v < 0, 'fmt_sign'):
            out.append(BV(8, ord('-')))
            mag = bv(w, -v.v)
    # fork on the number of digits
    maxd = len(str((1 << w) - 1))
    W = w + 8
    m = z3.ZeroExt(8, mag.v)
    nd = None
    for d in range(1, maxd + 1):
        if d == maxd or ip.branch(z3.ULT(m, z3.BitVecVal(10 ** d, W)), 'fmt_digits'):
            nd = d
            break
    digs = [ip.fresh(8, 'dig') for _ in range(nd)]
    total = z3.BitVecVal(0, W)
    for i, dg in enumerate(digs):
        ip.assume(z3.ULE(dg.v, 9))
        total = total + z3.ZeroExt(W - 8, dg.v) * z3.BitVecVal(10 ** (nd - 1 - i), W)
    if nd > 1:
        ip.assume(dg_nonzero(digs[0]))
    ip.assume(total == m)
    return out + [bv(8, dg.v + 48) for dg in digs]


def dg_nonzero(d):
    return d.v != 0


def render_value(ip, kind, ty, p, opts=None):
    """Bytes produced by formatting the value behind pointer p with Display/Debug."""
    t = last_seg(ty)
    # strip reference layers in the static type, following the pointer accordingly
    v = p
    while t.startswith('&'):
        t = t[1:]
        if t.startswith('mut'):
            t = t[3:]
        v = ip.load(v.cell, v.path)
    it = int_type(t)
    if it and t not in ('bool', 'char'):
        x = deref(ip, v)
        if kind in ('display', 'debug'):
            return render_int(ip, x, it[1])
        if kind in ('upper_hex', 'lower_hex') and isinstance(x, BV) and x.concrete:
            # {:X} / {:#010X} of a concrete integer (identifiers in admin output): flags are taken to be `#0` when any are set
            digs = ('%X' if kind == 'upper_hex' else '%x') % x.v
            if opts and opts.get('flags') and opts.get('width'):
                digs = '0x' + digs.zfill(max(0, opts['width'] - 2))
            return [BV(8, c_) for c_ in digs.encode()]
        raise Inconclusive("int formatting kind %s of %r" % (kind, x))
    if t == 'bool':
        x = deref(ip, v)
        if ip.branch(x, 'fmt_bool'):
            return [BV(8, b) for b in b'true']
        return [BV(8, b) for b in b'false']
    if t == 'char':
        x = deref(ip, v)
        if kind == 'display':
            return encode_char(ip, x)
        return [BV(8, 39)] + encode_char(ip, x) + [BV(8, 39)]
    if t in ('str', 'String') or t.startswith('Cow<'):
        b = list(items(ip, v))
        if kind == 'display':
            return b
        return [BV(8, 34)] + b + [BV(8, 34)]      # Debug: quoted (escapes not modelled)
    if kind == 'lower_hex':
        x = deref(ip, v)
        if isinstance(x, (Seq, SeqView)):
            out = []
            for b in x.items:
                for nib in ((b.v >> 4) if b.concrete else z3.LShR(b.v, 4), (b.v & 15) if b.concrete else (b.v & 15)):
                    if isinstance(nib, int):
                        out.append(BV(8, ord('0123456789abcdef'[nib])))
                    else:
                        out.append(bv(8, z3.If(z3.ULT(nib, 10), nib + 48, nib + 87)))
            return out
        if isinstance(x, BV) and x.concrete:
            return [BV(8, c_) for c_ in ('%x' % x.v).encode()]
        raise Inconclusive("lower_hex formatting of %r" % (x,))
    if kind == 'display':
        cands = ip.prog.lookup('<%s as Display>::fmt' % ty.lstrip('&').replace('mut ', ''))
        if cands:
            out = Seq([], 'string')
            fm = Agg([Ptr(Cell(out, 'fmtbuf'), ())], 'Formatter')
            r = ip.call_function(cands[0], [v if isinstance(v, Ptr) else Ptr(Cell(v, 'tmp'), ()), Ptr(Cell(fm, 'formatter'), ())])
            return list(out.items)
        hook = getattr(ip, 'display_hook', None)
        if hook:
            r = hook(ip, t, v)
            if r is not None:
                return r
        if t.endswith('Error') or 'Error' in t or t in ('Elapsed',):
            return [BV(8, b) for b in b'<' + t.encode() + b'>']
        raise Inconclusive("Display for " + ty)
    # Debug of anything else: placeholder (debug output is never property-relevant)
    return [BV(8, b) for b in b'<dbg:' + t.encode()[:24] + b'>']


def render_arguments(ip, a):
    a = deref(ip, a) if isinstance(a, Ptr) else a
    if not isinstance(a, Opaque) or a.ty != 'Arguments':
        raise Inconclusive("render of %r" % (a,))
    if a.tag == 'lit':
        return list(a.data)
    t, args = a.data
    out = []
    i = 0
    argi = 0
    while True:
        n = t[i]
        i += 1
        if n == 0:
            break
        if n < 0x80:
            out.extend(BV(8, b) for b in t[i:i + n])
            i += n
        elif n == 0x80:
            ln = t[i] | (t[i + 1] << 8)
            i += 2
            out.extend(BV(8, b) for b in t[i:i + ln])
            i += ln
        else:
            opts = {}
            if n != 0xC0:
                if n & 1:
                    opts['flags'] = int.from_bytes(bytes(t[i:i + 4]), 'little'); i += 4
                if n & 2:
                    opts['width'] = t[i] | (t[i + 1] << 8); i += 2
                if n & 4:
                    opts['precision'] = t[i] | (t[i + 1] << 8); i += 2
                if n & 8:
                    argi = t[i] | (t[i + 1] << 8); i += 2
                if n & 48:
                    raise Inconclusive("dynamic width/precision in format template")
            arg = args[argi]
            argi += 1
            ty, p = arg.data
            b = render_value(ip, arg.tag, ty, p, opts)
            # `{:#?}` / alternate only changes Debug layout; width pads with spaces on the right for str
            if opts.get('width') and len(b) < opts['width']:
                pad = [BV(8, 32)] * (opts['width'] - len(b))
                t0 = last_seg(ty)
                if int_type(t0.lstrip('&')):
                    b = pad + b
                else:
                    b = b + pad
            out.extend(b)
    return out


@model(r'^(?:std|alloc)::fmt::format$|^(?:alloc::)?fmt::format::format_inner$')
def m_format(c, a):
    return Seq(render_arguments(c.ip, a), 'string')


@model(r'^(?:std::fmt::|core::fmt::)?Formatter::<.*>::write_str$|^<(?:std::fmt::)?Formatter<.*> as (?:std::fmt::)?Write>::write_str$')
def m_formatter_write_str(c, f, s):
    ip = c.ip
    fm = deref(ip, f)
    out = seq(ip, fm.fields[0])
    out.items.extend(items(ip, s))
    return ok(ip, unit())


@model(r'^(?:std::fmt::|core::fmt::)?Formatter::<.*>::write_fmt$|^<(?:std::fmt::)?Formatter<.*> as (?:std::fmt::)?Write>::write_fmt$')
def m_formatter_write_fmt(c, f, a):
    ip = c.ip
    fm = deref(ip, f)
    out = seq(ip, fm.fields[0])
    out.items.extend(render_arguments(ip, a))
    return ok(ip, unit())


@model(r'^<(?:std::string::)?String as (?:std::fmt::)?Write>::(write_str|write_fmt)$')
def m_string_write(c, p, s):
    ip = c.ip
    out = seq(ip, p)
    if c.m.group(1) == 'write_str':
        out.items.extend(items(ip, s))
    else:
        out.items.extend(render_arguments(ip, s))
    return ok(ip, unit())


@model(r'^(?:std::fmt::|core::fmt::)?Formatter::<.*>::(debug_struct|debug_tuple|debug_list|debug_map|debug_set)\w*$|^(?:std::fmt::|core::fmt::)?Formatter::<.*>::(pad|pad_integral)$')
def m_formatter_debug(c, f, *a):
    ip = c.ip
    fm = deref(ip, f)
    out = seq(ip, fm.fields[0])
    if c.m.group(2) == 'pad':
        out.items.extend(items(ip, a[0]))
    else:
        out.items.extend(BV(8, b) for b in b'<dbg>')
    return ok(ip, unit())


@model(r'^<(str|std::string::String|String|&str|&std::string::String|char|bool|[iu](?:8|16|32|64|128|size)) as (?:std::fmt::)?(Display|Debug)>::fmt$')
def m_prim_display_fmt(c, p, f):
    ip = c.ip
    fm = deref(ip, f)
    out = seq(ip, fm.fields[0])
    out.items.extend(render_value(ip, c.m.group(2).lower(), c.m.group(1), p))
    return ok(ip, unit())


@model(r'^<(.*) as (?:std::string::)?ToString>::to_string$')
def m_to_string_generic(c, p):
    ip = c.ip
    ty = c.m.group(1)
    return Seq(render_value(ip, 'display', ty, p), 'string')
