"""tokio IO / time / rand / misc environment models.

IO contract used (Tokio's documented AsyncReadExt/AsyncWriteExt): `read_u8`, `read_i32`,
`read_exact(buf)` either deliver exactly the requested bytes from the stream, in order, or fail
(UnexpectedEof when the scripted stream ends; or an injected fault); `write_all(buf)` either appends
all of buf to the outbound log or fails at an injected fault point.  TCP segmentation is Tokio's
business and is trusted, not re-proved.
"""
import re
import z3
from ..interp import model, Inconclusive, Panic, Infeasible, StopPath, last_seg
from ..values import *
from .. import mirparse as P
from .util import *


class StreamV:
    """Scripted duplex stream: `inbound` bytes to be read, `out` log of written bytes.
    fail_reads / fail_writes: if True each operation may nondeterministically fail (symbolic choice)."""

    def __init__(self, inbound=(), name='stream', fail_reads=False, fail_writes=False, eof_is_error=True):
        self.inbound = list(inbound)
        self.pos = 0
        self.out = []
        self.name = name
        self.fail_reads = fail_reads
        self.fail_writes = fail_writes
        self.flushed = 0
        self.write_calls = []     # list of lists (per write_all call)
        self.failed = False
        self.ops = []             # trace of (op, n)
        self.refill = None        # optional callback(ip, stream, n): a reactive peer appends to `inbound` on demand
        self.pending_at = set()   # read positions at which the first read attempt finds no data yet (Poll::Pending once)
        self.on_write = None      # optional callback(ip, stream, data) after each write_all
        self.on_read = None       # optional callback(ip, stream) before each read operation
        self.write_failed = False
        self.writes_fail_from = None   # read position from which the peer is gone for good: every later write / flush fails
        self.eof_pending = False       # the peer is silent, not gone: a read past the scripted bytes waits (Poll::Pending) instead of EOF
        self.stall_after = None        # None, or how many more bytes the peer takes before it stops reading (a write then waits forever)

    def __repr__(self):
        return "Stream(%s pos=%d/%d out=%d)" % (self.name, self.pos, len(self.inbound), len(self.out))


def stream_of(ip, p):
    v = deref(ip, p)
    n = 0
    while not isinstance(v, StreamV):
        hook = getattr(ip, 'stream_hook', None)
        if hook:
            r = hook(ip, v)
            if r is not None:
                v = r
                continue
        # unwrap wrappers (BufStream / enum StreamInner / split halves ...) by first field
        if isinstance(v, Agg) and v.fields:
            v = deref(ip, v.fields[0])
        elif isinstance(v, EnumV):
            fs = [f for fs in v.variants.values() for f in fs]
            if not fs:
                raise Inconclusive("stream enum without payload")
            v = deref(ip, fs[0])
        else:
            raise Inconclusive("not a stream: %r" % (v,))
        n += 1
        if n > 6:
            raise Inconclusive("stream wrapper too deep")
    return v


def io_error(ip, kind='Other'):
    return Opaque('io::Error', kind)


@model(r'^<(.*) as tokio::io::AsyncReadExt>::(read_u8|read_i8|read_i16|read_u16|read_i32|read_u32|read_i64|read_u64|read_exact)$')
def m_async_read(c, s, *buf):
    return Opaque('IoFuture', c.m.group(2), (s, buf[0] if buf else None))


@model(r'^<(.*) as tokio::io::AsyncWriteExt>::(write_all|flush|shutdown|write_u8|write_i32)$')
def m_async_write(c, s, *buf):
    return Opaque('IoFuture', c.m.group(2), (s, buf[0] if buf else None))


def poll_ready(ip, v):
    return EnumV(BV(64, 0), {'Ready': [v]}, 'Poll')


def poll_pending(ip):
    return EnumV(BV(64, 1), {}, 'Poll')


def do_io(ip, fut):
    op = fut.tag
    s, buf = fut.data
    st = stream_of(ip, s)
    if op.startswith('read'):
        if op == 'read_exact':
            d = seq(ip, buf)
            n = len(d.items)
        else:
            n = int(re.search(r'\d+', op).group(0)) // 8
        st.ops.append((op, n))
        if st.on_read is not None:
            st.on_read(ip, st)
        if st.failed:
            return err(ip, io_error(ip, 'AfterFailure'))
        if st.fail_reads and ip.choose(2, 'read_fault') == 1:
            st.failed = True
            return err(ip, io_error(ip, 'InjectedReadFault'))
        if st.pos + n > len(st.inbound) and st.refill is not None:
            st.refill(ip, st, n)
        if st.pos + n > len(st.inbound):
            st.pos = len(st.inbound)
            st.failed = True
            return err(ip, io_error(ip, 'UnexpectedEof'))
        data = st.inbound[st.pos:st.pos + n]
        st.pos += n
        if op == 'read_exact':
            base = d.base if isinstance(d, SeqView) else d
            off = d.start if isinstance(d, SeqView) else 0
            for i in range(n):
                base.items[off + i] = data[i]
            return ok(ip, BV(64, n))
        from .strings import bytes_to_int
        return ok(ip, bytes_to_int(data, n * 8))
    if op == 'write_all':
        data = list(items(ip, buf))
        st.ops.append((op, len(data)))
        if st.failed:
            return err(ip, io_error(ip, 'AfterFailure'))
        if st.fail_writes and ip.choose(2, 'write_fault') == 1:
            st.failed = True
            return err(ip, io_error(ip, 'InjectedWriteFault'))
        if st.writes_fail_from is not None and st.pos >= st.writes_fail_from:
            st.write_failed = True
            return err(ip, io_error(ip, 'BrokenPipe'))
        st.out.extend(data)
        st.write_calls.append(data)
        if st.on_write is not None:
            st.on_write(ip, st, data)
        return ok(ip, unit())
    if op in ('flush', 'shutdown'):
        st.ops.append((op, 0))
        if st.failed:
            return err(ip, io_error(ip, 'AfterFailure'))
        if st.fail_writes and ip.choose(2, 'flush_fault') == 1:
            st.failed = True
            return err(ip, io_error(ip, 'InjectedFlushFault'))
        if st.writes_fail_from is not None and st.pos >= st.writes_fail_from:
            return err(ip, io_error(ip, 'BrokenPipe'))
        st.flushed = len(st.out)
        return ok(ip, unit())
    raise Inconclusive("io op " + op)


@model(r'^<tokio::io::util::\w+::\w+<.*> as (?:futures::|std::future::)?Future>::poll$')
def m_io_future_poll(c, pin, cx):
    ip = c.ip
    ptr = pin.fields[0]
    fut = ip.load(ptr.cell, ptr.path)
    if isinstance(fut, Opaque) and fut.ty == 'HookFuture' and getattr(ip, 'poll_hook', None):
        return ip.poll_hook(ip, fut, ptr)
    if not (isinstance(fut, Opaque) and fut.ty == 'IoFuture'):
        raise Inconclusive("poll of %r" % (fut,))
    if fut.tag.startswith('read'):
        st = stream_of(ip, fut.data[0])
        if st.pos in st.pending_at:
            st.pending_at.discard(st.pos)
            st.ops.append(('pending', st.pos))
            return poll_pending(ip)
        if st.eof_pending and not st.failed:
            if fut.tag == 'read_exact':
                need = len(seq(ip, fut.data[1]).items)
            else:
                need = int(re.search(r'\d+', fut.tag).group(0)) // 8
            if st.pos + need > len(st.inbound) and st.refill is None:
                st.ops.append(('pending', st.pos))
                return poll_pending(ip)
    if fut.tag == 'write_all':
        st = stream_of(ip, fut.data[0])
        if st.stall_after is not None and not st.failed:
            data = list(items(ip, fut.data[1]))
            done = _get_written(fut)
            take = min(st.stall_after, len(data) - done)
            if take > 0:
                chunk = _Partial(data[done:done + take])
                st.out.extend(chunk)
                st.write_calls.append(chunk)
                st.stall_after -= take
                _set_written(fut, done + take)
            if _get_written(fut) < len(data):
                if st.write_calls and isinstance(st.write_calls[-1], _Partial):
                    st.write_calls[-1].partial = True
                st.ops.append(('write_stalled', _get_written(fut)))
                return poll_pending(ip)
            if st.write_calls and isinstance(st.write_calls[-1], _Partial):
                st.write_calls[-1].partial = False
            return poll_ready(ip, ok(ip, unit()))
    return poll_ready(ip, do_io(ip, fut))


class _Partial(list):
    """A chunk written while the peer was stalling; `partial` is True if the write it belongs to never completed."""
    partial = False


_WRITTEN = {}


def _get_written(fut):
    return _WRITTEN.get(id(fut), (None, 0))[1] if _WRITTEN.get(id(fut), (None, 0))[0] is fut else 0


def _set_written(fut, n):
    _WRITTEN[id(fut)] = (fut, n)


# ----------------------------------------------------------------------------- time
def now_value(ip, tag):
    """Fresh symbolic non-decreasing instant (nanoseconds, 64-bit) per clock family.
    A harness may freeze the clocks (env['frozen_clock']): every reading is then the same instant."""
    if ip.env.get('frozen_clock'):
        return BV(64, ip.env['frozen_clock'])
    t = ip.fresh(64, tag)
    last = ip.env.get('last_' + tag)
    if last is not None:
        ip.assume(z3.UGE(t.v, last.z()))
    # keep clear of wrap-around
    ip.assume(z3.ULT(t.v, z3.BitVecVal(1 << 62, 64)))
    ip.env['last_' + tag] = t
    return t


@model(r'^(?:std::time::|tokio::time::)?Instant::now$')
def m_instant_now(c):
    return Agg([now_value(c.ip, 'instant')], 'Instant')


@model(r'^(?:std::time::)?SystemTime::now$')
def m_systemtime_now(c):
    return Agg([now_value(c.ip, 'systime')], 'SystemTime')


@model(r'^(?:\w+::)*Duration::(from_millis|from_secs|from_micros|from_nanos)$')
def m_duration_from(c, v):
    ip = c.ip
    mul = {'from_millis': 10 ** 6, 'from_secs': 10 ** 9, 'from_micros': 10 ** 3, 'from_nanos': 1}[c.m.group(1)]
    if v.concrete:
        return Agg([BV(128, v.v * mul)], 'Duration')
    return Agg([bv(128, z3.ZeroExt(64, v.v) * z3.BitVecVal(mul, 128))], 'Duration')


@model(r'^(?:\w+::)*Duration::(as_millis|as_secs|as_micros|as_nanos)$')
def m_duration_as(c, d):
    ip = c.ip
    d = deref(ip, d) if isinstance(d, Ptr) else d
    div = {'as_millis': 10 ** 6, 'as_secs': 10 ** 9, 'as_micros': 10 ** 3, 'as_nanos': 1}[c.m.group(1)]
    w = (int_type(c.dest_ty or 'u128') or (128, False))[0]
    x = d.fields[0]
    if x.concrete:
        return BV(w, x.v // div)
    q = z3.UDiv(x.v, z3.BitVecVal(div, 128))
    return bv(w, q if w == 128 else z3.Extract(w - 1, 0, q))


# ----------------------------------------------------------------------------- rand
@model(r'^rand::random::<(\w+)>$')
def m_rand_random(c):
    it = int_type(c.m.group(1))
    if it is None:
        raise Inconclusive(c.callee)
    return c.ip.fresh(it[0], 'rand')


@model(r'^(?:rand::)?(?:rngs::thread::)?thread_rng$')
def m_thread_rng(c):
    return Opaque('ThreadRng', 'rng')


@model(r'^<.* as rand::Rng>::gen_range::<(\w+), .*>$')
def m_gen_range(c, rng, r):
    ip = c.ip
    it = int_type(c.m.group(1))
    v = ip.fresh(it[0], 'rand_range')
    a, b = r.fields[0], r.fields[1]
    ip.assume(as_cond(ip.binop('Ge', v, a, it[1], c.callee)))
    incl = (r.ty or '').endswith('RangeInclusive')
    ip.assume(as_cond(ip.binop('Le' if incl else 'Lt', v, b, it[1], c.callee)))
    return v


@model(r'^<\[.*\] as (?:rand::seq::)?SliceRandom>::shuffle::<')
def m_shuffle(c, s, rng):
    """Shuffle: result is *some* permutation.  Modelled as a nondeterministic choice of permutation
    for up to 3 elements (all 6), identity+reverse beyond (recorded as a bound)."""
    import itertools
    ip = c.ip
    sq = seq(ip, s)
    n = len(sq.items)
    if n <= 1:
        ip.env.setdefault('shuffles', []).append(list(sq.items))
        return unit()
    perms = list(itertools.permutations(range(n))) if n <= 3 else [tuple(range(n)), tuple(reversed(range(n)))]
    if n > 3:
        ip.env.setdefault('assumptions', set()).add('shuffle of >3 elements explores identity and reversal only')
    k = ip.choose(len(perms), 'shuffle')
    base = sq.base if isinstance(sq, SeqView) else sq
    off = sq.start if isinstance(sq, SeqView) else 0
    old = list(sq.items)
    for i, j in enumerate(perms[k]):
        base.items[off + i] = old[j]
    ip.env.setdefault('shuffles', []).append(list(base.items[off:off + n]))
    return unit()


# ----------------------------------------------------------------------------- atomics (sequential semantics)
@model(r'^(?:std::sync::atomic::)?Atomic(Bool|Usize|U64|U32|I64|I32|U8)::new$')
def m_atomic_new(c, v):
    return Agg([v], 'Atomic')


@model(r'^(?:std::sync::atomic::)?Atomic(Bool|Usize|U64|U32|I64|I32|U8)::(load)$')
def m_atomic_load(c, p, order):
    return deref(c.ip, p).fields[0]


@model(r'^(?:std::sync::atomic::)?Atomic(Bool|Usize|U64|U32|I64|I32|U8)::(store)$')
def m_atomic_store(c, p, v, order):
    deref(c.ip, p).fields[0] = v
    return unit()


@model(r'^(?:std::sync::atomic::)?Atomic(Bool|Usize|U64|U32|I64|I32|U8)::(swap)$')
def m_atomic_swap(c, p, v, order):
    a = deref(c.ip, p)
    old = a.fields[0]
    a.fields[0] = v
    return old


@model(r'^(?:std::sync::atomic::)?Atomic(Usize|U64|U32|I64|I32|U8)::(fetch_add|fetch_sub)$')
def m_atomic_fetch_add(c, p, v, order):
    ip = c.ip
    a = deref(ip, p)
    old = a.fields[0]
    a.fields[0] = ip.binop('Add' if c.m.group(2) == 'fetch_add' else 'Sub', old, v, False, c.callee)
    return old


# ----------------------------------------------------------------------------- locks (single-threaded semantics)
@model(r'^(?:\w+::)*(?:Mutex|RwLock)::<.*>::new$')
def m_lock_new(c, v):
    return Agg([v], 'Lock')


@model(r'^(?:\w+::)*(?:Mutex|RwLock)::<.*>::(lock|read|write)$')
def m_lock_lock(c, p):
    ip = c.ip
    held = ip.env.setdefault('locks_held', [])
    held.append(id(deref(ip, p)))
    return Agg([Ptr(p.cell, p.path + (('f', 0),))], 'Guard')


@model(r'^(?:\w+::)*(?:Mutex|RwLock)::<.*>::(try_lock|try_read|try_write|try_lock_for|try_lock_until)$')
def m_lock_try(c, p, *a):
    """Whether another thread holds the lock at this instant is the environment's choice: both outcomes are explored (parking_lot: Option<Guard>)."""
    ip = c.ip
    from .util import some, none
    if ip.choose(2, 'try_lock') == 0:
        ip.env.setdefault('events_lock', []).append('contended')
        return none(ip)
    return some(ip, Agg([Ptr(p.cell, p.path + (('f', 0),))], 'Guard'))


@model(r'^<(?:\w+::)*(?:MutexGuard|RwLockReadGuard|RwLockWriteGuard)<.*> as (?:std::ops::)?(?:Deref|DerefMut)>::(deref|deref_mut)$')
def m_guard_deref(c, g):
    return deref(c.ip, g).fields[0] if isinstance(g, Ptr) else g.fields[0]


# ----------------------------------------------------------------------------- arc_swap / once_cell: harness hooks provide the global
@model(r'^(?:once_cell::sync::)?Lazy::<.*>::new$|^(?:std::sync::)?LazyLock::<.*>::new$')
def m_lazy_new(c, f):
    return Agg([None, f], 'Lazy')


@model(r'^<(?:once_cell::sync::)?Lazy<.*> as (?:std::ops::)?Deref>::deref$|^<(?:std::sync::)?LazyLock<.*> as (?:std::ops::)?Deref>::deref$')
def m_lazy_deref(c, p):
    """Lazy statics: a harness hook may supply the value; otherwise the initialiser closure is run once (per path)."""
    ip = c.ip
    hook = getattr(ip, 'lazy_hook', None)
    if hook is not None:
        r = hook(ip, p, c)
        if r is not None:
            return r
    lz = ip.load(p.cell, p.path)
    if not (isinstance(lz, Agg) and lz.ty == 'Lazy'):
        raise Inconclusive("deref of Lazy %r" % (lz,))
    if lz.fields[0] is None:
        lz.fields[0] = ip.call_value(lz.fields[1], [])
    return Ptr(p.cell, p.path + (('f', 0),))


# ----------------------------------------------------------------------------- tokio::sync::mpsc (bounded)
class ChanV:
    """Bounded mpsc channel as seen from the sender: remaining capacity, closed flag, items accepted."""

    def __init__(self, capacity, closed, name='chan'):
        self.capacity = capacity      # BV64 (symbolic ok)
        self.closed = closed          # BV1
        self.sent = []
        self.name = name
        self.awaited = False

    def __repr__(self):
        return "Chan(%s sent=%d)" % (self.name, len(self.sent))


def chan_of(ip, p):
    v = deref(ip, p)
    if not isinstance(v, ChanV):
        raise Inconclusive("expected channel sender, got %r" % (v,))
    return v


@model(r'^(?:tokio::sync::mpsc::)?(?:bounded::)?Sender::<.*>::(capacity)$')
def m_sender_capacity(c, p):
    return chan_of(c.ip, p).capacity


@model(r'^(?:tokio::sync::mpsc::)?(?:bounded::)?Sender::<.*>::(is_closed)$')
def m_sender_is_closed(c, p):
    return chan_of(c.ip, p).closed


@model(r'^(?:tokio::sync::mpsc::)?(?:bounded::)?Sender::<.*>::(try_send)$')
def m_sender_try_send(c, p, v):
    """tokio contract: Err(Closed) if the receiver is gone, Err(Full) if no capacity, else the value is queued."""
    ip = c.ip
    ch = chan_of(ip, p)
    if ip.branch(ch.closed, 'chan_closed'):
        return EnumV(BV(64, 1), {'Err': [EnumV(BV(64, 1), {'Closed': [v]}, 'TrySendError')]}, 'Result')
    cap = ch.capacity
    if ip.branch((cap.v == 0) if not cap.concrete else (cap.v == 0), 'chan_full'):
        return EnumV(BV(64, 1), {'Err': [EnumV(BV(64, 0), {'Full': [v]}, 'TrySendError')]}, 'Result')
    ch.sent.append(v)
    ch.capacity = ip.binop('Sub', cap, BV(64, 1), False, 'try_send')
    return ok(ip, unit())


@model(r'^(?:tokio::sync::mpsc::)?(?:bounded::)?Sender::<.*>::(send|reserve|send_timeout|closed)$')
def m_sender_send_async(c, p, *a):
    """Any awaiting send on the channel: recorded (a mirror that is slow or hung would block the caller)."""
    ch = chan_of(c.ip, p)
    ch.awaited = True
    c.ip.env.setdefault('awaited_channels', []).append(ch.name)
    return Opaque('IoFuture', 'chan_send', (p, a[0] if a else None))


@model(r'^(?:bytes::)?Bytes::(clone|from|copy_from_slice)$|^<(?:bytes::)?Bytes as Clone>::clone$')
def m_bytes_clone(c, p):
    v = deref(c.ip, p) if isinstance(p, Ptr) else p
    return v


# ----------------------------------------------------------------------------- chrono (seconds resolution is all pgcat uses)
@model(r'^(?:chrono::offset::|chrono::)?Utc::now$')
def m_utc_now(c):
    return Agg([now_value(c.ip, 'utc_secs')], 'DateTime')


@model(r'^(?:chrono::)?DateTime::<.*>::naive_utc$')
def m_naive_utc(c, d):
    d = deref(c.ip, d) if isinstance(d, Ptr) else d
    return Agg([d.fields[0]], 'NaiveDateTime')


@model(r'^(?:chrono::naive::|chrono::)?NaiveDateTime::(timestamp|and_utc)$|^(?:chrono::)?DateTime::<.*>::timestamp$')
def m_naive_timestamp(c, d):
    d = deref(c.ip, d) if isinstance(d, Ptr) else d
    if c.m.group(1) == 'and_utc':
        return Agg([d.fields[0]], 'DateTime')
    return d.fields[0]


@model(r'^(?:std::time::)?SystemTime::(elapsed)$|^(?:std::time::|tokio::time::)?Instant::(elapsed)$')
def m_time_elapsed(c, t):
    """now - t with a fresh non-decreasing `now` (nanoseconds).  SystemTime::elapsed returns Ok unless t is in the future."""
    ip = c.ip
    t = deref(ip, t) if isinstance(t, Ptr) else t
    is_sys = 'SystemTime' in c.callee
    now = now_value(ip, 'systime' if is_sys else 'instant')
    t0 = t.fields[0]
    if is_sys and ip.branch(ip.binop('Lt', now, t0, False, 'elapsed'), 'clock_skew'):
        return err(ip, Opaque('SystemTimeError', 'skew'))
    if not is_sys:
        ip.assume(as_cond(ip.binop('Ge', now, t0, False, 'elapsed')))
    d = ip.binop('Sub', now, t0, False, 'elapsed')
    dur = Agg([BV(128, d.v) if d.concrete else bv(128, z3.ZeroExt(64, d.v))], 'Duration')
    return ok(ip, dur) if is_sys else dur


@model(r'^(?:std::time::|tokio::time::)?Instant::(duration_since)$')
def m_instant_duration_since(c, a, b):
    ip = c.ip
    a = deref(ip, a) if isinstance(a, Ptr) else a
    b = deref(ip, b) if isinstance(b, Ptr) else b
    d = ip.binop('Sub', a.fields[0], b.fields[0], False, 'duration_since')
    return Agg([BV(128, d.v) if d.concrete else bv(128, z3.ZeroExt(64, d.v))], 'Duration')


# ----------------------------------------------------------------------------- tokio::time::timeout
@model(r'^tokio::time::timeout::<')
def m_timeout(c, dur, fut):
    c.ip.env.setdefault('timeouts', []).append(dur)
    return Opaque('Timeout', 'timeout', (dur, fut))


@model(r'^<tokio::time::Timeout<.*> as (?:futures::|std::future::)?Future>::poll$')
def m_timeout_poll(c, pin, cx):
    """tokio contract: either the deadline elapses first (Err(Elapsed)) or the inner future completes (Ok(output)).
    Which one is a symbolic choice (the environment decides how slow the peer is)."""
    ip = c.ip
    ptr = pin.fields[0]
    t = ip.load(ptr.cell, ptr.path)
    dur, fut = t.data
    only = ip.env.get('timeout_only_ns')
    if only is not None:
        # {duration in ns: None | gate()}: only deadlines of exactly these durations may fire (and only while their gate holds)
        d0 = dur.fields[0] if isinstance(dur, Agg) and dur.fields else None
        may = d0 is not None and d0.concrete and d0.v in only and (only[d0.v] is None or only[d0.v]())
    else:
        may = not ip.env.get('no_timeouts')
    if may and ip.choose(2, 'timeout_elapses') == 1:
        partial = ip.env.get('elapsed_after_partial_progress')
        if partial is not None:
            # the deadline passes after the inner future has made SOME progress (the harness stalls the peer and polls it once); if it
            # completes all the same the deadline did not pass
            r = partial(ip, dur, fut)
            if isinstance(r, EnumV) and r.discr.concrete and r.discr.v == 0:
                ip.env.setdefault('events', []).append(('timeout_inner_done',))
                return poll_ready(ip, ok(ip, r.variants['Ready'][0]))
        ip.env.setdefault('timeouts_elapsed', []).append(dur)
        ip.env.setdefault('events', []).append(('timeout_elapsed',))
        cb = ip.env.get('on_timeout_elapsed')
        if cb:
            cb(dur)
        return poll_ready(ip, err(ip, Opaque('Elapsed', 'elapsed')))
    out = ip.drive(fut)
    ip.env.setdefault('events', []).append(('timeout_inner_done',))
    return poll_ready(ip, ok(ip, out))


@model(r'^(?:std::vec::)?Vec::<.*>::(retain)::<')
def m_vec_retain(c, p, f):
    ip = c.ip
    s = seq(ip, p)
    keep = []
    for v in list(s.items):
        if ip.branch(ip.call_value(f, [Ptr(Cell(v, 'retain'), ())]), 'retain'):
            keep.append(v)
    s.items[:] = keep
    return unit()


