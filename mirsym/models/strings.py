"""String / str / Vec / slices / bytes::{BytesMut,Buf,BufMut} / io::Cursor / CString.

All containers have concrete lengths (chosen and enumerated by the harness); contents are
symbolic 8-bit terms."""
import re
import z3
from ..interp import model, Inconclusive, Panic, Infeasible, last_seg
from ..values import *
from .. import mirparse as P
from .util import *
from .core import encode_char, default_of


def put(ip, p, vals):
    s = seq(ip, p)
    if isinstance(s, SeqView):
        raise Inconclusive("append to a borrowed slice")
    s.items.extend(vals)


def int_bytes_be(x, n):
    out = []
    w = n * 8
    for i in range(n):
        hi = w - 1 - 8 * i
        out.append(BV(8, (x.v >> (hi - 7)) & 0xff) if x.concrete else bv(8, z3.Extract(hi, hi - 7, x.v)))
    return out


def bytes_to_int(bs, w):
    if all(b.concrete for b in bs):
        v = 0
        for b in bs:
            v = (v << 8) | b.v
        return BV(w, v)
    return bv(w, z3.Concat(*[b.z() for b in bs]) if len(bs) > 1 else bs[0].z())


# ----------------------------------------------------------------------------- constructors
@model(r'^(?:bytes::)?BytesMut::(new|with_capacity)$')
def m_bytesmut_new(c, *a):
    if a and isinstance(a[0], BV):
        cap = a[0]
        ip = c.ip
        # capacity > isize::MAX panics ("capacity overflow") in Vec::with_capacity
        too_big = z3.UGT(cap.z(), z3.BitVecVal((1 << 63) - 1, 64)) if not cap.concrete else cap.v > (1 << 63) - 1
        if ip.branch(too_big, 'capacity'):
            raise Panic(c.callee, 'capacity overflow')
    return Seq([], 'bytesmut')


@model(r'^(?:std::string::)?String::(new|with_capacity)$')
def m_string_new(c, *a):
    return Seq([], 'string')


@model(r'^(?:std::vec::)?Vec::<.*>::(new|with_capacity)$')
def m_vec_new(c, *a):
    return Seq([], 'vec')


@model(r'^(?:std::vec::|alloc::vec::)?from_elem::<(\w+)>$')
def m_vec_from_elem(c, v, n):
    ip = c.ip
    k = concrete_int(ip, n, 'vec![x; n]', 64)
    return Seq([v for _ in range(k)], 'vec')


@model(r'^(?:\w+::)*<impl \[.*\]>::into_vec::<')
def m_slice_into_vec(c, b):
    ip = c.ip
    v = deref(ip, b)
    return Seq(list(seq_items(v)), 'vec')


def seq_items(v):
    if isinstance(v, (Seq, SeqView)):
        return v.items
    raise Inconclusive("expected seq, got %r" % (v,))


@model(r'^(?:\w+::)*<impl \[.*\]>::to_vec$|^(?:\w+::)*slice::<impl \[.*\]>::to_vec$|^<\[.*\] as ToOwned>::to_owned$')
def m_slice_to_vec(c, s):
    return Seq(list(items(c.ip, s)), 'vec')


@model(r'^(?:alloc::alloc::)?exchange_malloc$')
def m_exchange_malloc(c, size, align):
    return Ptr(Cell(None, 'box'), ())


@model(r'^(?:std::boxed::)?Box::<.*>::new_uninit$|^(?:std::boxed::)?box_new_uninit')
def m_box_new_uninit(c, *a):
    return Ptr(Cell(None, 'box'), ())


@model(r'^(?:std::boxed::)?Box::<.*>::(assume_init|into_raw|from_raw|leak)$|^(?:std::boxed::)?box_assume_init_into_vec_unsafe')
def m_box_assume_init(c, b):
    ip = c.ip
    if 'into_vec' in c.callee:
        v = unwrap_maybeuninit(deref(ip, b))
        return Seq(list(seq_items(v)), 'vec')
    if 'assume_init' in c.callee:
        v = ip.load(b.cell, b.path)
        ip.store(b.cell, b.path, unwrap_maybeuninit(v))
    return b


def unwrap_maybeuninit(v):
    """MaybeUninit<T> written field-wise as (*p).1.0.0 = value: peel the union / ManuallyDrop / MaybeDangling wrappers."""
    n = 0
    while isinstance(v, Agg) and v.ty is None and n < 4:
        inner = [f for f in v.fields if f is not None]
        if len(inner) != 1:
            break
        v = inner[0]
        n += 1
    return v


@model(r'^(?:std::mem::)?MaybeUninit::<.*>::(write)$')
def m_maybeuninit_write(c, p, v):
    c.ip.store(p.cell, p.path, v)
    return p


@model(r'^(?:std::mem::)?MaybeUninit::<.*>::(as_mut_ptr|as_ptr)$')
def m_maybeuninit_ptr(c, p):
    return p


@model(r'^(?:std|core)::ptr::write::<')
def m_ptr_write(c, p, v):
    c.ip.store(p.cell, p.path, v)
    return unit()


@model(r'^(?:std|core)::ptr::(?:mut_ptr|const_ptr)::<impl \*(?:mut|const) .*>::(is_aligned_to|is_aligned)$')
def m_ptr_aligned(c, *a):
    return BV(1, 1)


# ----------------------------------------------------------------------------- Deref family (all identity on the handle)
@model(r'^<(?:std::string::)?String as (?:std::ops::)?(?:Deref|DerefMut|AsRef<.*>|Borrow<.*>)>::\w+$'
       r'|^(?:std::string::)?String::(as_str|as_bytes|as_mut_str)$'
       r'|^<(?:std::vec::)?Vec<.*> as (?:std::ops::)?(?:Deref|DerefMut|AsRef<.*>|Borrow<.*>|AsMut<.*>)>::\w+$'
       r'|^(?:std::vec::)?Vec::<.*>::(as_slice|as_mut_slice)$'
       r'|^<(?:bytes::)?(?:BytesMut|Bytes) as (?:std::ops::)?(?:Deref|DerefMut|AsRef<.*>|Borrow<.*>|AsMut<.*>)>::\w+$'
       r'|^(?:\w+::)*str::<impl str>::(as_bytes|as_str|trim_matches_noop)$'
       r'|^<str as AsRef<.*>>::as_ref$|^<\[u8\] as AsRef<.*>>::as_ref$'
       r'|^<(?:std::borrow::)?Cow<.*> as (?:std::ops::)?Deref>::deref$'
       r'|^<&?(?:mut )?(?:str|\[u8\]|std::string::String|String) as (?:std::ops::)?Deref>::deref$'
       r'|^<\[.*\] as (?:std::ops::)?Index<(?:std::ops::)?RangeFull>>::index$'
       r'|^<(?:str|std::string::String|String|Vec<.*>|BytesMut) as (?:std::ops::)?Index(?:Mut)?<(?:std::ops::)?RangeFull>>::index(?:_mut)?$'
       r'|^(?:std::ffi::)?CString::(as_bytes_with_nul|as_c_str)$'
       r'|^<\[.*; \d+\] as (?:AsRef|Borrow)<.*>>::\w+$')
def m_deref_identity(c, p, *_range_full):
    ip = c.ip
    v = ip.load(p.cell, p.path)
    # &&str / &Cow -> inner
    if isinstance(v, Ptr):
        return v
    if isinstance(v, EnumV) and v.ty == 'Cow':
        var = variant(ip, v, 'Cow')
        inner = v.variants[var][0]
        if isinstance(inner, Ptr):
            return inner
        return Ptr(p.cell, p.path + (('v', var), ('f', 0)))
    return p


@model(r'^(?:std::ffi::)?CString::(as_bytes)$')
def m_cstring_as_bytes(c, p):
    s = seq(c.ip, p)
    return Ptr(Cell(SeqView(s, 0, len(s.items) - 1), 'cstr_bytes'), ())


@model(r'^(?:std::ffi::)?CString::new::<')
def m_cstring_new(c, s):
    ip = c.ip
    its = list(items(ip, s))
    for i, b in enumerate(its):
        if ip.branch(b.z() == 0 if not b.concrete else b.v == 0, 'nul'):
            return err(ip, Opaque('NulError', 'nul', i))
    return ok(ip, Seq(its + [BV(8, 0)], 'cstring'))


# ----------------------------------------------------------------------------- String / str
@model(r'^<str as (?:std::string::)?ToString>::to_string$|^<(?:std::string::)?String as (?:std::string::)?ToString>::to_string$'
       r'|^(?:\w+::)*str::<impl str>::(to_string|to_owned)$|^<str as (?:std::borrow::)?ToOwned>::to_owned$'
       r'|^(?:\w+::)*str::<impl str>::to_owned$|^<(?:std::borrow::)?Cow<\'?_?,? ?str> as (?:std::string::)?ToString>::to_string$'
       r'|^(?:std::borrow::)?Cow::<\'?_?,? ?str>::(into_owned)$|^<&str as (?:std::string::)?ToString>::to_string$')
def m_to_string(c, s):
    return Seq(list(items(c.ip, s)), 'string')


@model(r'^(?:std::string::)?String::(push_str)$')
def m_push_str(c, p, s):
    put(c.ip, p, list(items(c.ip, s)))
    return unit()


@model(r'^(?:std::string::)?String::(push)$')
def m_string_push(c, p, ch):
    put(c.ip, p, encode_char(c.ip, ch))
    return unit()


@model(r'^<(?:std::string::)?String as (?:std::ops::)?Add<&str>>::add$')
def m_string_add(c, s, t):
    return Seq(list(items(c.ip, s)) + list(items(c.ip, t)), 'string')


@model(r'^<(?:std::string::)?String as (?:std::ops::)?AddAssign<&str>>::add_assign$')
def m_string_add_assign(c, p, t):
    put(c.ip, p, list(items(c.ip, t)))
    return unit()


@model(r'^(?:std::string::)?String::(len|is_empty|clear)$|^(?:\w+::)*str::<impl str>::(len|is_empty)$'
       r'|^(?:std::vec::)?Vec::<.*>::(len|is_empty|clear)$|^(?:\w+::)*slice::<impl \[.*\]>::(len|is_empty)$'
       r'|^(?:bytes::)?BytesMut::(len|is_empty|clear)$|^(?:std::collections::)?VecDeque::<.*>::(len|is_empty|clear)$')
def m_len(c, p):
    ip = c.ip
    op = [g for g in c.m.groups() if g][0]
    s = seq(ip, p)
    if op == 'len':
        return BV(64, len(s.items))
    if op == 'is_empty':
        return BV(1, int(len(s.items) == 0))
    s.items.clear()
    return unit()


@model(r'^(?:std::string::)?String::from_utf8_lossy$')
def m_from_utf8_lossy(c, s):
    """Contract used: for ASCII input the result is the same bytes.  Non-ASCII bytes may be replaced
    by U+FFFD; harnesses that reach this assume ASCII (recorded)."""
    ip = c.ip
    its = list(items(ip, s))
    if getattr(ip, 'lossy_invalid', False):
        # hostile-input mode: besides ASCII, a byte may be one that can never occur in UTF-8 (0xC0, 0xC1, 0xF5..0xFF); each such byte
        # is a maximal invalid sequence of its own and becomes U+FFFD (EF BF BD).  Other non-ASCII bytes stay outside the claim.
        out, replaced = [], False
        for b in its:
            if b.concrete:
                if b.v < 128:
                    out.append(b)
                elif b.v in (0xC0, 0xC1) or b.v >= 0xF5:
                    out += [BV(8, 0xEF), BV(8, 0xBF), BV(8, 0xBD)]
                    replaced = True
                else:
                    raise Inconclusive("from_utf8_lossy on a concrete multi-byte sequence")
            elif ip.branch(z3.ULT(b.v, 128), 'ascii'):
                out.append(b)
            else:
                ip.assume(z3.Or(b.v == 0xC0, b.v == 0xC1, z3.UGE(b.v, 0xF5)))
                out += [BV(8, 0xEF), BV(8, 0xBF), BV(8, 0xBD)]
                replaced = True
        ip.env.setdefault('assumptions', set()).add('from_utf8_lossy: input bytes are ASCII or never-valid UTF-8 bytes (0xC0, 0xC1, 0xF5..0xFF); multi-byte sequences outside the claim')
        if replaced:
            return EnumV(BV(64, 1), {'Owned': [Seq(out, 'string')]}, 'Cow')
        return EnumV(BV(64, 0), {'Borrowed': [Ptr(Cell(Seq(out, 'str'), 'lossy'), ())]}, 'Cow')
    for b in its:
        if not b.concrete:
            ip.assume(z3.ULT(b.v, 128))
        elif b.v >= 128:
            raise Inconclusive("from_utf8_lossy on non-ASCII concrete byte")
    ip.env.setdefault('assumptions', set()).add('from_utf8_lossy: input bytes are ASCII (< 0x80)')
    return EnumV(BV(64, 0), {'Borrowed': [Ptr(Cell(Seq(its, 'str'), 'lossy'), ())]}, 'Cow')


@model(r'^(?:std::string::)?String::from_utf8$|^(?:std|core)::str::from_utf8$|^(?:core::)?str::converts::from_utf8$|^from_utf8$')
def m_from_utf8(c, s):
    ip = c.ip
    its = list(items(ip, s))
    if getattr(ip, 'lossy_invalid', False):
        # hostile-input mode (see from_utf8_lossy): a byte that can never occur in UTF-8 makes the strict conversion fail
        for b in its:
            if b.concrete:
                if b.v >= 128:
                    if b.v in (0xC0, 0xC1) or b.v >= 0xF5:
                        return err(ip, Opaque('Utf8Error', 'invalid'))
                    raise Inconclusive("from_utf8 on a concrete multi-byte sequence")
            elif not ip.branch(z3.ULT(b.v, 128), 'ascii'):
                ip.assume(z3.Or(b.v == 0xC0, b.v == 0xC1, z3.UGE(b.v, 0xF5)))
                return err(ip, Opaque('Utf8Error', 'invalid'))
        if 'String::from_utf8' in c.callee:
            return ok(ip, Seq(its, 'string'))
        return ok(ip, Ptr(Cell(Seq(its, 'str'), 'utf8'), ()))
    for b in its:
        if not b.concrete:
            ip.assume(z3.ULT(b.v, 128))
        elif b.v >= 128:
            raise Inconclusive("from_utf8 on non-ASCII concrete byte")
    ip.env.setdefault('assumptions', set()).add('from_utf8: input bytes are ASCII (< 0x80)')
    if 'String::from_utf8' in c.callee:
        return ok(ip, Seq(its, 'string'))
    return ok(ip, Ptr(Cell(Seq(its, 'str'), 'utf8'), ()))


@model(r'^(?:std::string::)?String::(into_bytes|into_boxed_str)$|^(?:std::vec::)?Vec::<.*>::into_boxed_slice$')
def m_into_bytes(c, s):
    return s


@model(r'^(?:\w+::)*str::<impl str>::(to_lowercase|to_uppercase|to_ascii_lowercase|to_ascii_uppercase)$'
       r'|^(?:std::string::)?String::(to_lowercase)$')
def m_to_lower(c, s):
    ip = c.ip
    op = c.m.group(1) or c.m.group(2)
    out = []
    for b in items(ip, s):
        if b.concrete:
            ch = bytes([b.v])
            if b.v >= 128:
                raise Inconclusive("case mapping of non-ASCII")
            out.append(BV(8, (ch.lower() if 'lower' in op else ch.upper())[0]))
        else:
            ip.assume(z3.ULT(b.v, 128))
            if 'lower' in op:
                out.append(bv(8, z3.If(z3.And(z3.UGE(b.v, 65), z3.ULE(b.v, 90)), b.v + 32, b.v)))
            else:
                out.append(bv(8, z3.If(z3.And(z3.UGE(b.v, 97), z3.ULE(b.v, 122)), b.v - 32, b.v)))
    return Seq(out, 'string')


@model(r'^(?:\w+::)*str::<impl str>::(eq_ignore_ascii_case)$')
def m_eq_ignore_case(c, a, b):
    ip = c.ip
    ai, bi = items(ip, a), items(ip, b)
    if len(ai) != len(bi):
        return BV(1, 0)

    def low(x):
        if x.concrete:
            return BV(8, bytes([x.v]).lower()[0] if x.v < 128 else x.v)
        return bv(8, z3.If(z3.And(z3.UGE(x.v, 65), z3.ULE(x.v, 90)), x.v + 32, x.v))
    return mkbool(conj([val_eq(ip, low(x), low(y)) for x, y in zip(ai, bi)]))


@model(r'^(?:\w+::)*str::<impl str>::(starts_with|ends_with|contains)::<(.*)>$')
def m_str_starts_with(c, s, pat):
    ip = c.ip
    op = c.m.group(1)
    si = items(ip, s)
    if isinstance(pat, BV):          # char pattern
        pi = encode_char(ip, pat)
    else:
        pi = items(ip, pat)
    n, k = len(si), len(pi)
    if k > n:
        return BV(1, 0)
    if op == 'starts_with':
        return mkbool(conj([val_eq(ip, a, b) for a, b in zip(si[:k], pi)]))
    if op == 'ends_with':
        return mkbool(conj([val_eq(ip, a, b) for a, b in zip(si[n - k:], pi)]))
    return mkbool(disj([conj([val_eq(ip, a, b) for a, b in zip(si[i:i + k], pi)]) for i in range(n - k + 1)]))


@model(r'^(?:\w+::)*str::<impl str>::(trim|trim_start|trim_end)$')
def m_str_trim(c, s):
    ip = c.ip
    its = list(items(ip, s))
    op = c.m.group(1)

    def is_ws(b):
        if b.concrete:
            return b.v in (9, 10, 11, 12, 13, 32)
        return z3.Or(*[b.v == k for k in (9, 10, 11, 12, 13, 32)])
    lo, hi = 0, len(its)
    if op in ('trim', 'trim_start'):
        while lo < hi and ip.branch(is_ws(its[lo]), 'trim'):
            lo += 1
    if op in ('trim', 'trim_end'):
        while hi > lo and ip.branch(is_ws(its[hi - 1]), 'trim'):
            hi -= 1
    base = seq(ip, s)
    return Ptr(Cell(SeqView(base, lo, hi - lo), 'trim'), ())


@model(r'^(?:\w+::)*str::<impl str>::parse::<([iu]\w+)>$|^<([iu]\w+) as (?:std::str::)?FromStr>::from_str$')
def m_str_parse(c, s):
    """Exact model of integer FromStr: optional sign, >=1 ASCII digits, overflow -> Err."""
    ip = c.ip
    ty = c.m.group(1) or c.m.group(2)
    it = int_type(ty)
    if it is None or ty in ('bool', 'char'):
        raise Inconclusive("parse::<%s>" % ty)
    w, signed = it
    its = list(items(ip, s))
    E = lambda: err(ip, Opaque('ParseIntError', 'parse'))
    if not its:
        return E()
    i = 0
    negative = False
    b0 = its[0]
    if ip.branch(b0.z() == ord('+') if not b0.concrete else b0.v == ord('+'), 'sign'):
        i = 1
    elif ip.branch(b0.z() == ord('-') if not b0.concrete else b0.v == ord('-'), 'sign'):
        if not signed:
            # "-" on unsigned: Rust treats '-' as invalid digit for unsigned types
            return E()
        negative = True
        i = 1
    if i >= len(its):
        return E()
    W = w + 8 + 4 * len(its)
    acc = BV(W, 0)
    for b in its[i:]:
        isd = (48 <= b.v <= 57) if b.concrete else z3.And(z3.UGE(b.v, 48), z3.ULE(b.v, 57))
        if not ip.branch(isd, 'digit'):
            return E()
        d = BV(W, b.v - 48) if b.concrete else bv(W, z3.ZeroExt(W - 8, b.v - 48))
        acc = ip.binop('Add', ip.binop('Mul', acc, BV(W, 10), False, 'parse'), d, False, 'parse')
    if signed:
        lim = (1 << (w - 1)) if negative else (1 << (w - 1)) - 1
    else:
        lim = (1 << w) - 1
    inr = (acc.v <= lim) if acc.concrete else z3.ULE(acc.v, z3.BitVecVal(lim, W))
    if not ip.branch(inr, 'range'):
        return E()
    lowv = BV(w, acc.v) if acc.concrete else bv(w, z3.Extract(w - 1, 0, acc.v))
    if negative:
        lowv = BV(w, -lowv.v) if lowv.concrete else bv(w, -lowv.v)
    return ok(ip, lowv)


@model(r'^(?:\w+::)*str::<impl str>::(chars|bytes|char_indices)$|^(?:\w+::)*slice::<impl \[.*\]>::(iter|iter_mut)$'
       r'|^(?:std::vec::)?Vec::<.*>::(iter|iter_mut)$|^(?:bytes::)?BytesMut::(iter)$'
       r'|^<&(?:mut )?(?:std::vec::)?Vec<.*> as (?:std::iter::)?IntoIterator>::into_iter$'
       r'|^<&(?:mut )?\[.*\] as (?:std::iter::)?IntoIterator>::into_iter$'
       r'|^(?:std::collections::)?VecDeque::<.*>::(iter|iter_mut)$'
       r'|^<&(?:mut )?(?:std::collections::)?VecDeque<.*> as (?:std::iter::)?IntoIterator>::into_iter$')
def m_seq_iter(c, p):
    """Borrowing iterators: items are element pointers (or chars for `chars`)."""
    ip = c.ip
    op = [g for g in c.m.groups() if g]
    op = op[0] if op else 'iter'
    s = seq(ip, p)
    if op in ('chars', 'char_indices'):
        out = []
        for i, b in enumerate(s.items):
            if b.concrete:
                if b.v >= 128:
                    raise Inconclusive("chars() over non-ASCII")
                ch = BV(32, b.v)
            else:
                ip.assume(z3.ULT(b.v, 128))
                ch = bv(32, z3.ZeroExt(24, b.v))
            out.append(ch if op == 'chars' else Agg([BV(64, i), ch], 'tuple'))
        return IterV(out)
    if op == 'bytes':
        return IterV(list(s.items))
    base = s.base if isinstance(s, SeqView) else s
    off = s.start if isinstance(s, SeqView) else 0
    cell = Cell(base, 'iter_base')
    return IterV([Ptr(cell, (('i', BV(64, off + i)),)) for i in range(len(s.items))])


@model(r'^<(?:std::vec::)?Vec<.*> as (?:std::iter::)?IntoIterator>::into_iter$'
       r'|^<(?:std::collections::)?VecDeque<.*> as (?:std::iter::)?IntoIterator>::into_iter$'
       r'|^(?:std::vec::)?Vec::<.*>::(into_iter|drain)::<.*>$|^<\[.*; \d+\] as (?:std::iter::)?IntoIterator>::into_iter$')
def m_vec_into_iter(c, v, *rest):
    ip = c.ip
    s = seq(ip, v)
    out = list(s.items)
    if 'drain' in c.callee:
        s.items.clear()
    return IterV(out)


class IterV:
    """Materialised iterator: remaining items (concrete count)."""
    __slots__ = ('items', 'pos')

    def __init__(self, items):
        self.items = list(items)
        self.pos = 0

    def __repr__(self):
        return "Iter(%d left)" % (len(self.items) - self.pos)


@model(r'^(?:\w+::)*slice::<impl \[.*\]>::(first|last)$|^(?:std::vec::)?Vec::<.*>::(first|last)$')
def m_first_last(c, p):
    ip = c.ip
    op = c.m.group(1) or c.m.group(2)
    s = seq(ip, p)
    if not s.items:
        return none(ip)
    base = s.base if isinstance(s, SeqView) else s
    off = s.start if isinstance(s, SeqView) else 0
    i = 0 if op == 'first' else len(s.items) - 1
    return some(ip, Ptr(Cell(base, 'elt'), (('i', BV(64, off + i)),)))


@model(r'^(?:\w+::)*slice::<impl \[.*\]>::(get|get_mut)::<usize>$|^(?:std::vec::)?Vec::<.*>::(get|get_mut)::<usize>$')
def m_slice_get(c, p, idx):
    ip = c.ip
    s = seq(ip, p)
    base = s.base if isinstance(s, SeqView) else s
    off = s.start if isinstance(s, SeqView) else 0
    n = len(s.items)
    if idx.concrete:
        if idx.v < n:
            return some(ip, Ptr(Cell(base, 'elt'), (('i', BV(64, off + idx.v)),)))
        return none(ip)
    for j in range(n):
        if ip.branch(idx.v == j, 'get'):
            return some(ip, Ptr(Cell(base, 'elt'), (('i', BV(64, off + j)),)))
    return none(ip)


@model(r'^<(?:std::vec::)?Vec<.*> as (?:std::ops::)?Index(?:Mut)?<usize>>::index(?:_mut)?$'
       r'|^<\[.*\] as (?:std::ops::)?Index(?:Mut)?<usize>>::index(?:_mut)?$'
       r'|^<(?:bytes::)?BytesMut as (?:std::ops::)?Index(?:Mut)?<usize>>::index(?:_mut)?$'
       r'|^<(?:std::collections::)?VecDeque<.*> as (?:std::ops::)?Index(?:Mut)?<usize>>::index(?:_mut)?$')
def m_index_usize(c, p, idx):
    ip = c.ip
    s = seq(ip, p)
    base = s.base if isinstance(s, SeqView) else s
    off = s.start if isinstance(s, SeqView) else 0
    n = len(s.items)
    if idx.concrete:
        if idx.v >= n:
            raise Panic(c.callee, 'index out of bounds: the len is %d but the index is %d' % (n, idx.v))
        return Ptr(Cell(base, 'elt'), (('i', BV(64, off + idx.v)),))
    for j in range(n):
        if ip.branch(idx.v == j, 'index'):
            return Ptr(Cell(base, 'elt'), (('i', BV(64, off + j)),))
    raise Panic(c.callee, 'index out of bounds (symbolic index >= %d)' % n)


def range_bounds(ip, r, n, callee):
    """(start, end) concrete ints from a Range-like Agg (forking on symbolic bounds); panics like slicing."""
    ty = r.ty or ''
    f = r.fields
    if ty.endswith('RangeFull') or (not f and 'Range' in ty):
        return 0, n
    if ty.endswith('RangeFrom'):
        a, b = f[0], BV(64, n)
    elif ty.endswith('RangeTo'):
        a, b = BV(64, 0), f[0]
    elif ty.endswith('RangeToInclusive'):
        a, b = BV(64, 0), ip.binop('Add', f[0], BV(64, 1), False, callee)
    elif ty.endswith('RangeInclusive'):
        a, b = f[0], ip.binop('Add', f[1], BV(64, 1), False, callee)
    elif ty.endswith('Range'):
        a, b = f[0], f[1]
    else:
        raise Inconclusive("range type %s" % ty)
    bi = None
    if b.concrete:
        bi = b.v
    else:
        for j in range(n + 1):
            if ip.branch(b.v == j, 'range_end'):
                bi = j
                break
    if bi is None or bi > n:
        raise Panic(callee, 'range end index out of range for slice of length %d' % n)
    ai = None
    if a.concrete:
        ai = a.v
    else:
        for j in range(bi + 1):
            if ip.branch(a.v == j, 'range_start'):
                ai = j
                break
    if ai is None or ai > bi:
        raise Panic(callee, 'slice index starts at %s but ends at %d' % (ai, bi))
    return ai, bi


@model(r'^<(?:\[.*\]|str|(?:std::string::)?String|(?:std::vec::)?Vec<.*>|(?:bytes::)?BytesMut) as (?:std::ops::)?Index(?:Mut)?<(?:std::ops::)?Range\w*<usize>>>::index(?:_mut)?$')
def m_index_range(c, p, r):
    ip = c.ip
    s = seq(ip, p)
    a, b = range_bounds(ip, r, len(s.items), c.callee)
    return Ptr(Cell(SeqView(s, a, b - a), 'slice'), ())


@model(r'^(?:\w+::)*slice::<impl \[.*\]>::(split_at|split_at_mut)$')
def m_split_at(c, p, mid):
    ip = c.ip
    s = seq(ip, p)
    n = len(s.items)
    m = concrete_int(ip, mid, 'split_at', n + 2)
    if m > n:
        raise Panic(c.callee, 'mid > len')
    return Agg([Ptr(Cell(SeqView(s, 0, m), 'l'), ()), Ptr(Cell(SeqView(s, m, n - m), 'r'), ())], 'tuple')


@model(r'^(?:\w+::)*slice::<impl \[.*\]>::(windows|chunks|chunks_exact)$')
def m_windows(c, p, size):
    ip = c.ip
    s = seq(ip, p)
    n = len(s.items)
    k = concrete_int(ip, size, c.m.group(1), n + 2)
    if k == 0:
        raise Panic(c.callee, 'size is zero')
    from .collections_ import IterV
    if c.m.group(1) == 'windows':
        starts = [(i, k) for i in range(0, n - k + 1)]
    else:
        starts = [(i, min(k, n - i)) for i in range(0, n, k)]
        if c.m.group(1) == 'chunks_exact':
            starts = [x for x in starts if x[1] == k]
    return IterV([Ptr(Cell(SeqView(s, i, m), 'window'), ()) for i, m in starts])


@model(r'^(?:std::vec::)?Vec::<.*>::(push)$|^(?:std::collections::)?VecDeque::<.*>::(push_back)$')
def m_vec_push(c, p, v):
    put(c.ip, p, [v])
    return unit()


@model(r'^(?:std::collections::)?VecDeque::<.*>::(push_front)$')
def m_vecdeque_push_front(c, p, v):
    seq(c.ip, p).items.insert(0, v)
    return unit()


@model(r'^(?:std::vec::)?Vec::<.*>::(pop)$|^(?:std::collections::)?VecDeque::<.*>::(pop_back)$')
def m_vec_pop(c, p):
    ip = c.ip
    s = seq(ip, p)
    if not s.items:
        return none(ip)
    return some(ip, s.items.pop())


@model(r'^(?:std::collections::)?VecDeque::<.*>::(pop_front)$')
def m_vecdeque_pop_front(c, p):
    ip = c.ip
    s = seq(ip, p)
    if not s.items:
        return none(ip)
    return some(ip, s.items.pop(0))


@model(r'^(?:std::collections::)?VecDeque::<.*>::(new|with_capacity)$')
def m_vecdeque_new(c, *a):
    return Seq([], 'vecdeque')


@model(r'^(?:std::vec::)?Vec::<.*>::(extend_from_slice)$|^<(?:std::vec::)?Vec<.*> as (?:std::iter::)?Extend<.*>>::extend::<')
def m_vec_extend(c, p, s):
    ip = c.ip
    if isinstance(s, IterV):
        vals = s.items[s.pos:]
    else:
        vals = list(items(ip, s))
    put(ip, p, vals)
    return unit()


@model(r'^(?:std::vec::)?Vec::<.*>::(truncate)$|^(?:bytes::)?BytesMut::(truncate)$|^(?:std::string::)?String::(truncate)$')
def m_truncate(c, p, n):
    ip = c.ip
    s = seq(ip, p)
    k = concrete_int(ip, n, 'truncate', len(s.items) + 1) if not n.concrete else n.v
    del s.items[k:]
    return unit()


@model(r'^(?:std::vec::)?Vec::<.*>::(remove)$')
def m_vec_remove(c, p, n):
    ip = c.ip
    s = seq(ip, p)
    k = concrete_int(ip, n, 'remove', len(s.items) + 1)
    if k >= len(s.items):
        raise Panic(c.callee, 'removal index out of bounds')
    return s.items.pop(k)


@model(r'^(?:\w+::)*slice::<impl \[(.*)\]>::(contains)$|^(?:std::vec::)?Vec::<(.*)>::(contains)$')
def m_slice_contains(c, p, x):
    ip = c.ip
    return mkbool(disj([val_eq(ip, e, x) for e in items(ip, p)]))


@model(r'^(?:\w+::)*slice::<impl \[.*\]>::(join|concat)::<')
def m_slice_join(c, p, *sep):
    ip = c.ip
    out = []
    its = items(ip, p)
    sp = list(items(ip, sep[0])) if sep else []
    for i, e in enumerate(its):
        if i:
            out.extend(sp)
        out.extend(items(ip, e))
    return Seq(out, 'string')


@model(r'^(?:\w+::)*slice::<impl \[.*\]>::(copy_from_slice|clone_from_slice)$')
def m_copy_from_slice(c, dst, src):
    ip = c.ip
    d = seq(ip, dst)
    s = items(ip, src)
    if len(d.items) != len(s):
        raise Panic(c.callee, 'source slice length does not match destination slice length')
    base = d.base if isinstance(d, SeqView) else d
    off = d.start if isinstance(d, SeqView) else 0
    for i, v in enumerate(s):
        base.items[off + i] = v
    return unit()


# ----------------------------------------------------------------------------- io::Cursor / bytes::Buf
def cursor_parts(ip, p):
    cur = deref(ip, p)
    if not (isinstance(cur, Agg) and cur.ty == 'Cursor'):
        raise Inconclusive("expected Cursor, got %r" % (cur,))
    return cur, items(ip, cur.fields[0])


@model(r'^(?:std::io::)?Cursor::<.*>::new$')
def m_cursor_new(c, inner):
    return Agg([inner, BV(64, 0)], 'Cursor')


@model(r'^(?:std::io::)?Cursor::<.*>::(position)$')
def m_cursor_position(c, p):
    return deref(c.ip, p).fields[1]


@model(r'^(?:std::io::)?Cursor::<.*>::(set_position)$')
def m_cursor_set_position(c, p, pos):
    deref(c.ip, p).fields[1] = pos
    return unit()


@model(r'^(?:std::io::)?Cursor::<.*>::(get_ref|get_mut|into_inner)$')
def m_cursor_get_ref(c, p):
    cur = deref(c.ip, p) if isinstance(p, Ptr) else p
    return cur.fields[0]


def cursor_remaining(ip, cur, data):
    pos = cur.fields[1]
    n = len(data)
    if not pos.concrete:
        pos_c = concrete_int(ip, pos, 'cursor position', n + 2)
        cur.fields[1] = BV(64, pos_c)
        pos = cur.fields[1]
    return max(0, n - pos.v), pos.v


@model(r'^<(?:std::io::)?Cursor<.*> as (?:bytes::)?Buf>::(get_u8|get_i8|get_u16|get_i16|get_u32|get_i32|get_u64|get_i64)$')
def m_cursor_get_int(c, p):
    ip = c.ip
    cur, data = cursor_parts(ip, p)
    w = int(re.search(r'\d+', c.m.group(1)).group(0))
    n = w // 8
    rem, pos = cursor_remaining(ip, cur, data)
    if rem < n:
        raise Panic(c.callee, 'advance out of bounds: buffer too short (need %d, have %d)' % (n, rem))
    v = bytes_to_int(data[pos:pos + n], w)
    cur.fields[1] = BV(64, pos + n)
    return v


@model(r'^<(?:std::io::)?Cursor<.*> as (?:bytes::)?Buf>::(get_uint|get_int|get_uint_le|get_int_le)$')
def m_cursor_get_nint(c, p, nbytes):
    """bytes::Buf::get_uint / get_int: nbytes (1..8) big-endian (or little-endian) bytes, zero- / sign-extended to 64 bits."""
    ip = c.ip
    cur, data = cursor_parts(ip, p)
    rem, pos = cursor_remaining(ip, cur, data)
    n = nbytes.v if nbytes.concrete else concrete_int(ip, nbytes, 'get_uint width', 9)
    if n > 8:
        raise Panic(c.callee, 'nbytes > 8')
    if rem < n:
        raise Panic(c.callee, 'advance out of bounds: buffer too short (need %d, have %d)' % (n, rem))
    bs = data[pos:pos + n]
    if c.m.group(1).endswith('_le'):
        bs = list(reversed(bs))
    cur.fields[1] = BV(64, pos + n)
    if n == 0:
        return BV(64, 0)
    v = bytes_to_int(bs, 8 * n)
    if n == 8:
        return v
    signed = c.m.group(1).startswith('get_int')
    if v.concrete:
        x = v.v
        if signed and x >> (8 * n - 1):
            x -= 1 << (8 * n)
        return BV(64, x & ((1 << 64) - 1))
    return bv(64, (z3.SignExt if signed else z3.ZeroExt)(64 - 8 * n, v.z()))


@model(r'^<(?:std::io::)?Cursor<.*> as (?:bytes::)?Buf>::(remaining|has_remaining)$')
def m_cursor_remaining(c, p):
    ip = c.ip
    cur, data = cursor_parts(ip, p)
    rem, pos = cursor_remaining(ip, cur, data)
    return BV(64, rem) if c.m.group(1) == 'remaining' else BV(1, int(rem > 0))


@model(r'^<(?:std::io::)?Cursor<.*> as (?:bytes::)?Buf>::(advance)$')
def m_cursor_advance(c, p, n):
    ip = c.ip
    cur, data = cursor_parts(ip, p)
    rem, pos = cursor_remaining(ip, cur, data)
    k = concrete_int(ip, n, 'advance', rem + 2) if not n.concrete else n.v
    if k > rem:
        raise Panic(c.callee, 'cannot advance past `remaining`: %d <= %d' % (k, rem))
    cur.fields[1] = BV(64, pos + k)
    return unit()


@model(r'^<(?:std::io::)?Cursor<.*> as (?:bytes::)?Buf>::(copy_to_slice)$')
def m_cursor_copy_to_slice(c, p, dst):
    ip = c.ip
    cur, data = cursor_parts(ip, p)
    rem, pos = cursor_remaining(ip, cur, data)
    d = seq(ip, dst)
    n = len(d.items)
    if rem < n:
        raise Panic(c.callee, 'advance out of bounds: buffer too short (need %d, have %d)' % (n, rem))
    base = d.base if isinstance(d, SeqView) else d
    off = d.start if isinstance(d, SeqView) else 0
    for i in range(n):
        base.items[off + i] = data[pos + i]
    cur.fields[1] = BV(64, pos + n)
    return unit()


@model(r'^<(?:std::io::)?Cursor<.*> as (?:bytes::)?Buf>::(chunk)$')
def m_cursor_chunk(c, p):
    ip = c.ip
    cur, data = cursor_parts(ip, p)
    rem, pos = cursor_remaining(ip, cur, data)
    return Ptr(Cell(Seq(data[pos:], 'bytes'), 'chunk'), ())


@model(r'^<(?:std::io::)?Cursor<.*> as (?:std::io::)?BufRead>::read_until$|^(?:std::io::)?BufRead::read_until::<')
def m_cursor_read_until(c, p, delim, out):
    """BufRead::read_until contract: append bytes up to and including the delimiter (or to EOF);
    returns Ok(number of bytes read).  Never fails for an in-memory cursor."""
    ip = c.ip
    cur, data = cursor_parts(ip, p)
    rem, pos = cursor_remaining(ip, cur, data)
    o = seq(ip, out)
    k = pos
    n = len(data)
    while k < n:
        b = data[k]
        o.items.append(b)
        k += 1
        if ip.branch(val_eq(ip, b, delim), 'delim'):
            break
    cur.fields[1] = BV(64, k)
    return ok(ip, BV(64, k - pos))


@model(r'^<(?:std::io::)?Cursor<.*> as (?:std::io::)?Read>::(read_exact)$')
def m_cursor_read_exact(c, p, dst):
    ip = c.ip
    cur, data = cursor_parts(ip, p)
    rem, pos = cursor_remaining(ip, cur, data)
    d = seq(ip, dst)
    n = len(d.items)
    if rem < n:
        cur.fields[1] = BV(64, len(data))
        return err(ip, Opaque('io::Error', 'UnexpectedEof'))
    base = d.base if isinstance(d, SeqView) else d
    off = d.start if isinstance(d, SeqView) else 0
    for i in range(n):
        base.items[off + i] = data[pos + i]
    cur.fields[1] = BV(64, pos + n)
    return ok(ip, unit())


# ----------------------------------------------------------------------------- BytesMut as Buf / BufMut
@model(r'^<(?:bytes::)?BytesMut as (?:bytes::)?BufMut>::(put_u8|put_i8|put_u16|put_i16|put_u32|put_i32|put_u64|put_i64)$'
       r'|^<(?:std::vec::)?Vec<u8> as (?:bytes::)?BufMut>::(put_u8|put_i8|put_u16|put_i16|put_u32|put_i32|put_u64|put_i64)$')
def m_put_int(c, p, v):
    op = c.m.group(1) or c.m.group(2)
    w = int(re.search(r'\d+', op).group(0))
    if v.w != w:
        raise Inconclusive("put width mismatch")
    put(c.ip, p, int_bytes_be(v, w // 8))
    return unit()


@model(r'^<(?:bytes::)?BytesMut as (?:bytes::)?BufMut>::(put_slice)$|^<(?:bytes::)?BytesMut as (?:bytes::)?BufMut>::put::<(&\[u8\]|&\[u8; \d+\]|&BytesMut|BytesMut|bytes::BytesMut|&bytes::BytesMut|Vec<u8>|&Vec<u8>|bytes::Bytes|Bytes|&mut BytesMut)>$'
       r'|^(?:bytes::)?BytesMut::(extend_from_slice)$|^<(?:std::vec::)?Vec<u8> as (?:bytes::)?BufMut>::(put_slice)$'
       r'|^<(?:bytes::)?BytesMut as (?:std::iter::)?Extend<.*>>::extend::<')
def m_put_slice(c, p, s):
    ip = c.ip
    src = seq(ip, s)
    vals = list(src.items)
    put(ip, p, vals)
    # `put(buf)` on an owned/`&mut` Buf consumes (advances) the source
    if 'put::<' in c.callee and not isinstance(src, SeqView) and ('&mut' in c.callee):
        src.items.clear()
    return unit()


@model(r'^<(?:bytes::)?BytesMut as (?:bytes::)?BufMut>::(put_bytes)$')
def m_put_bytes(c, p, val, cnt):
    ip = c.ip
    k = concrete_int(ip, cnt, 'put_bytes', 64)
    put(ip, p, [val] * k)
    return unit()


RESIZE_SPLIT = 40


@model(r'^(?:bytes::)?BytesMut::(resize)$|^(?:std::vec::)?Vec::<u8>::(resize)$')
def m_resize(c, p, newlen, val):
    ip = c.ip
    s = seq(ip, p)
    if newlen.concrete:
        k = newlen.v
    else:
        # a symbolic new length is split into the exact small values and one class "larger than RESIZE_SPLIT": the buffer then gets
        # RESIZE_SPLIT + 1 elements (every later comparison against the few bytes actually available behaves as for any larger
        # size; allocation failure for huge declared lengths is outside every claim)
        k = None
        for j in range(RESIZE_SPLIT + 1):
            if ip.branch(newlen.v == z3.BitVecVal(j, newlen.w), 'concretise resize'):
                k = j
                break
        if k is None:
            k = RESIZE_SPLIT + 1
            ip.env.setdefault('assumptions', set()).add('a symbolic resize above %d elements is modelled as %d elements' % (RESIZE_SPLIT, RESIZE_SPLIT + 1))
    if k > (1 << 20):
        raise Inconclusive("resize to %d bytes (beyond modelling bound)" % k)
    if k <= len(s.items):
        del s.items[k:]
    else:
        s.items.extend([val] * (k - len(s.items)))
    return unit()


@model(r'^(?:bytes::)?BytesMut::(reserve)$|^(?:std::vec::)?Vec::<.*>::(reserve|shrink_to_fit)$|^(?:std::string::)?String::(reserve)$')
def m_reserve(c, p, *n):
    return unit()


@model(r'^(?:bytes::)?BytesMut::(split_to)$')
def m_split_to(c, p, at):
    ip = c.ip
    s = seq(ip, p)
    n = len(s.items)
    k = concrete_int(ip, at, 'split_to', n + 2) if not at.concrete else at.v
    if k > n:
        raise Panic(c.callee, 'split_to out of bounds: %d <= %d' % (k, n))
    head = s.items[:k]
    del s.items[:k]
    return Seq(head, 'bytesmut')


@model(r'^(?:bytes::)?BytesMut::(split_off)$')
def m_split_off(c, p, at):
    ip = c.ip
    s = seq(ip, p)
    n = len(s.items)
    k = concrete_int(ip, at, 'split_off', n + 2) if not at.concrete else at.v
    if k > n:
        raise Panic(c.callee, 'split_off out of bounds: %d <= %d' % (k, n))
    tail = s.items[k:]
    del s.items[k:]
    return Seq(tail, 'bytesmut')


@model(r'^(?:bytes::)?BytesMut::(split|freeze)$')
def m_bytesmut_split(c, p):
    ip = c.ip
    if c.m.group(1) == 'freeze':
        return p if not isinstance(p, Ptr) else deref(ip, p)
    s = seq(ip, p)
    head = list(s.items)
    s.items.clear()
    return Seq(head, 'bytesmut')


@model(r'^<(?:bytes::)?BytesMut as (?:bytes::)?Buf>::(get_u8|get_i8|get_u16|get_i16|get_u32|get_i32|get_u64|get_i64)$')
def m_bytesmut_get_int(c, p):
    ip = c.ip
    s = seq(ip, p)
    w = int(re.search(r'\d+', c.m.group(1)).group(0))
    n = w // 8
    if len(s.items) < n:
        raise Panic(c.callee, 'advance out of bounds: buffer too short (need %d, have %d)' % (n, len(s.items)))
    v = bytes_to_int(s.items[:n], w)
    del s.items[:n]
    return v


@model(r'^<(?:bytes::)?BytesMut as (?:bytes::)?Buf>::(advance)$')
def m_bytesmut_advance(c, p, n):
    ip = c.ip
    s = seq(ip, p)
    k = concrete_int(ip, n, 'advance', len(s.items) + 2) if not n.concrete else n.v
    if k > len(s.items):
        raise Panic(c.callee, 'cannot advance past `remaining`: %d <= %d' % (k, len(s.items)))
    del s.items[:k]
    return unit()


@model(r'^<(?:bytes::)?BytesMut as (?:bytes::)?Buf>::(remaining|has_remaining)$')
def m_bytesmut_remaining(c, p):
    s = seq(c.ip, p)
    return BV(64, len(s.items)) if c.m.group(1) == 'remaining' else BV(1, int(bool(s.items)))


@model(r'^<(?:bytes::)?BytesMut as (?:std::convert::)?From<&\[u8\]>>::from$|^(?:bytes::)?BytesMut::from_iter|^<(?:bytes::)?BytesMut as (?:std::iter::)?FromIterator<u8>>::from_iter')
def m_bytesmut_from(c, s):
    if isinstance(s, IterV):
        return Seq(s.items[s.pos:], 'bytesmut')
    return Seq(list(items(c.ip, s)), 'bytesmut')


@model(r'^<(?:bytes::)?BytesMut as (?:std::fmt::)?Write>::write_str$')
def m_bytesmut_write_str(c, p, s):
    put(c.ip, p, list(items(c.ip, s)))
    return ok(c.ip, unit())


def pattern_bytes(ip, pat):
    if isinstance(pat, BV):
        return encode_char(ip, pat)
    return list(items(ip, pat))


def find_all(ip, si, pi):
    """Non-overlapping left-to-right match positions of the (non-empty) pattern pi in si (forks on symbolic bytes)."""
    out = []
    i = 0
    n, k = len(si), len(pi)
    if k == 0:
        raise Inconclusive("empty pattern")
    while i + k <= n:
        if ip.branch(conj([val_eq(ip, a, b) for a, b in zip(si[i:i + k], pi)]), 'find'):
            out.append(i)
            i += k
        else:
            i += 1
    return out


@model(r'^(?:\w+::)*str::<impl str>::replace::<(.*)>$')
def m_str_replace(c, s, pat, to):
    ip = c.ip
    si = list(items(ip, s))
    pi = pattern_bytes(ip, pat)
    ti = list(items(ip, to))
    pos = find_all(ip, si, pi)
    out = []
    i = 0
    for p in pos:
        out.extend(si[i:p])
        out.extend(ti)
        i = p + len(pi)
    out.extend(si[i:])
    return Seq(out, 'string')


@model(r'^(?:\w+::)*str::<impl str>::(split|splitn|rsplit|split_terminator)::<(.*)>$')
def m_str_split(c, s, *a):
    ip = c.ip
    op = c.m.group(1)
    if op == 'splitn':
        lim, pat = a
        limit = concrete_int(ip, lim, 'splitn', 64)
    else:
        pat = a[0]
        limit = None
    base = seq(ip, s)
    si = list(base.items)
    pi = pattern_bytes(ip, pat)
    pos = find_all(ip, si, pi)
    if limit is not None:
        pos = pos[:max(0, limit - 1)]
    parts = []
    i = 0
    for p in pos:
        parts.append((i, p))
        i = p + len(pi)
    parts.append((i, len(si)))
    if op == 'split_terminator' and parts and parts[-1][0] == parts[-1][1]:
        parts.pop()
    out = [Ptr(Cell(SeqView(base, a0, b0 - a0), 'split'), ()) for a0, b0 in parts]
    if op == 'rsplit':
        out.reverse()
    return IterV(out)


@model(r'^(?:\w+::)*str::<impl str>::(split_once|rsplit_once)::<(.*)>$')
def m_str_split_once(c, s, pat):
    ip = c.ip
    base = seq(ip, s)
    si = list(base.items)
    pi = pattern_bytes(ip, pat)
    k = len(pi)
    rng = range(0, len(si) - k + 1)
    if c.m.group(1) == 'rsplit_once':
        rng = reversed(rng)
    for i in rng:
        if ip.branch(conj([val_eq(ip, a, b) for a, b in zip(si[i:i + k], pi)]), 'split_once'):
            return some(ip, Agg([Ptr(Cell(SeqView(base, 0, i), 'l'), ()), Ptr(Cell(SeqView(base, i + k, len(si) - i - k), 'r'), ())], 'tuple'))
    return none(ip)


@model(r'^(?:\w+::)*str::<impl str>::(find|rfind)::<(.*)>$')
def m_str_find(c, s, pat):
    ip = c.ip
    si = list(items(ip, s))
    pi = pattern_bytes(ip, pat)
    k = len(pi)
    rng = range(0, len(si) - k + 1)
    if c.m.group(1) == 'rfind':
        rng = reversed(rng)
    for i in rng:
        if ip.branch(conj([val_eq(ip, a, b) for a, b in zip(si[i:i + k], pi)]), 'find'):
            return some(ip, BV(64, i))
    return none(ip)


@model(r'^(?:\w+::)*str::<impl str>::(trim_matches|trim_start_matches|trim_end_matches|strip_prefix|strip_suffix)::<(.*)>$')
def m_str_trim_matches(c, s, pat):
    ip = c.ip
    op = c.m.group(1)
    base = seq(ip, s)
    si = list(base.items)
    pi = pattern_bytes(ip, pat)
    k = len(pi)
    lo, hi = 0, len(si)
    if op in ('strip_prefix', 'strip_suffix'):
        if k <= len(si):
            seg = si[:k] if op == 'strip_prefix' else si[len(si) - k:]
            if ip.branch(conj([val_eq(ip, a, b) for a, b in zip(seg, pi)]), op):
                lo, hi = (k, len(si)) if op == 'strip_prefix' else (0, len(si) - k)
                return some(ip, Ptr(Cell(SeqView(base, lo, hi - lo), op), ()))
        return none(ip)
    if op in ('trim_matches', 'trim_start_matches'):
        while lo + k <= hi and ip.branch(conj([val_eq(ip, a, b) for a, b in zip(si[lo:lo + k], pi)]), op):
            lo += k
    if op in ('trim_matches', 'trim_end_matches'):
        while hi - k >= lo and ip.branch(conj([val_eq(ip, a, b) for a, b in zip(si[hi - k:hi], pi)]), op):
            hi -= k
    return Ptr(Cell(SeqView(base, lo, hi - lo), op), ())


@model(r'^(?:\w+::)*slice::<impl \[(.*)\]>::(sort|sort_unstable)$')
def m_slice_sort(c, p):
    ip = c.ip
    s = seq(ip, p)
    its = list(s.items)
    if not all(isinstance(x, BV) for x in its):
        raise Inconclusive("sort of non-integers")
    it = int_type(c.m.group(1).strip()) or (64, False)
    # insertion sort with symbolic comparisons (forks)
    out = []
    for x in its:
        i = len(out)
        while i > 0 and ip.branch(ip.binop('Lt', x, out[i - 1], it[1], 'sort'), 'sort'):
            i -= 1
        out.insert(i, x)
    base = s.base if isinstance(s, SeqView) else s
    off = s.start if isinstance(s, SeqView) else 0
    for i, v in enumerate(out):
        base.items[off + i] = v
    return unit()


@model(r'^(?:\w+::)*slice::<impl \[.*\]>::(split|splitn)::<\{closure')
def m_slice_split_pred(c, s, *a):
    """slice::split(pred): subslices separated by elements matching the predicate closure."""
    ip = c.ip
    pred = a[-1]
    base = seq(ip, s)
    n = len(base.items)
    parts = []
    start = 0
    for i in range(n):
        elt = Ptr(Cell(base.base if isinstance(base, SeqView) else base, 'elt'),
                  (('i', BV(64, (base.start if isinstance(base, SeqView) else 0) + i)),))
        if ip.branch(ip.call_value(pred, [elt]), 'split_pred'):
            parts.append((start, i))
            start = i + 1
    parts.append((start, n))
    return IterV([Ptr(Cell(SeqView(base, a0, b0 - a0), 'split'), ()) for a0, b0 in parts])


@model(r'^<(?:std::string::)?String as (?:std::str::)?FromStr>::from_str$|^(?:\w+::)*str::<impl str>::parse::<(?:std::string::)?String>$')
def m_string_from_str(c, s):
    return ok(c.ip, Seq(list(items(c.ip, s)), 'string'))


@model(r'^(?:\w+::)*str::<impl str>::split_whitespace$')
def m_split_whitespace(c, p):
    """str::split_whitespace on a string whose bytes are all concrete (admin console commands in the obligations that use it)."""
    ip = c.ip
    s = seq(ip, p)
    its = list(s.items)
    if any(not b.concrete for b in its):
        raise Inconclusive("split_whitespace on a symbolic string")
    from .collections_ import IterV
    out, i, n = [], 0, len(its)
    ws = (9, 10, 11, 12, 13, 32)
    while i < n:
        while i < n and its[i].v in ws:
            i += 1
        j = i
        while j < n and its[j].v not in ws:
            j += 1
        if j > i:
            out.append(Ptr(Cell(SeqView(s, i, j - i), 'word'), ()))
        i = j
    return IterV(out)


@model(r'^(?:\w+::)*str::<impl str>::trim_end_matches::<char>$')
def m_trim_end_matches_char(c, p, ch):
    ip = c.ip
    s = seq(ip, p)
    its = list(s.items)
    if any(not b.concrete for b in its) or not ch.concrete:
        raise Inconclusive("trim_end_matches on a symbolic string")
    n = len(its)
    while n > 0 and its[n - 1].v == ch.v:
        n -= 1
    return Ptr(Cell(SeqView(s, 0, n), 'trimmed'), ())


@model(r'^(?:\w+::)*str::<impl str>::split::<char>$')
def m_split_char(c, p, ch):
    """str::split(char) on a string whose bytes are all concrete."""
    ip = c.ip
    s = seq(ip, p)
    its = list(s.items)
    if any(not b.concrete for b in its) or not ch.concrete:
        raise Inconclusive("str::split on a symbolic string")
    out, start = [], 0
    for i, b in enumerate(its):
        if b.v == ch.v:
            out.append(Ptr(Cell(SeqView(s, start, i - start), 'piece'), ()))
            start = i + 1
    out.append(Ptr(Cell(SeqView(s, start, len(its) - start), 'piece'), ()))
    return IterV(out)
