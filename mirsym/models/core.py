"""core / std basics: mem, Try, Option/Result combinators, conversions, Clone/PartialEq/Default,
integer helpers, smart pointers, futures plumbing, logging."""
import os
import re
import z3
from ..interp import model, Inconclusive, Panic, Infeasible, StopPath, last_seg, strip_generics
from ..values import *
from .. import mirparse as P
from .util import *

SIZES = {'u8': 1, 'i8': 1, 'u16': 2, 'i16': 2, 'u32': 4, 'i32': 4, 'u64': 8, 'i64': 8, 'usize': 8, 'isize': 8,
         'char': 4, 'bool': 1, 'u128': 16, 'i128': 16}


@model(r'^(?:std|core)::mem::size_of::<(\w+)>$')
def m_size_of(c):
    t = c.m.group(1)
    if t not in SIZES:
        raise Inconclusive("size_of " + t)
    return BV(64, SIZES[t])


@model(r'^(?:std::|core::)?(?:hint::)?must_use::<')
def m_must_use(c, x):
    return x


@model(r'^(?:std|core)::mem::(?:take|replace)::<')
def m_mem_take(c, dst, *rest):
    ip = c.ip
    old = ip.load(dst.cell, dst.path)
    if rest:
        new = rest[0]
    else:
        new = default_of(ip, deref_ty(c.arg_type(0)) or '', c)
    ip.store(dst.cell, dst.path, new)
    return old


@model(r'^(?:std|core)::mem::swap::<')
def m_mem_swap(c, a, b):
    ip = c.ip
    va, vb = ip.load(a.cell, a.path), ip.load(b.cell, b.path)
    ip.store(a.cell, a.path, vb)
    ip.store(b.cell, b.path, va)
    return unit()


@model(r'^(?:std|core)::mem::(?:drop|forget)::<|^drop::<')
def m_mem_drop(c, x):
    hook = getattr(c.ip, 'value_drop_hook', None)
    if hook:
        hook(c.ip, x)
    return unit()


def deref_ty(t):
    if t is None:
        return None
    t = t.strip()
    for p in ('&mut ', '&'):
        if t.startswith(p):
            return t[len(p):]
    return t


# ----------------------------------------------------------------------------- Try / residual
@model(r'^<(?:std::result::)?Result<.*> as (?:std::ops::)?Try>::branch$')
def m_try_branch_result(c, r):
    ip = c.ip
    v = variant(ip, r, 'Result')
    if v == 'Ok':
        return EnumV(BV(64, 0), {'Continue': [payload(r, 'Ok')[0]]}, 'ControlFlow')
    return EnumV(BV(64, 1), {'Break': [EnumV(BV(64, 1), {'Err': [payload(r, 'Err')[0]]}, 'Result')]}, 'ControlFlow')


@model(r'^<(?:std::option::)?Option<.*> as (?:std::ops::)?Try>::branch$')
def m_try_branch_option(c, r):
    ip = c.ip
    v = variant(ip, r, 'Option')
    if v == 'Some':
        return EnumV(BV(64, 0), {'Continue': [payload(r, 'Some')[0]]}, 'ControlFlow')
    return EnumV(BV(64, 1), {'Break': [none(ip)]}, 'ControlFlow')


@model(r'^<(?:std::option::)?Option<.*> as (?:std::ops::)?FromResidual<.*>>::from_residual$')
def m_from_residual_option(c, r):
    return none(c.ip)


@model(r'^<(?:std::result::)?Result<(.*)> as (?:std::ops::)?FromResidual<(?:std::result::)?Result<(?:std::convert::)?Infallible, (.*)>>>::from_residual$')
def m_from_residual_result(c, r):
    ip = c.ip
    e = payload(r, 'Err')[0]
    inner = c.m.group(1)
    parts = P.split_top(inner)
    tgt = parts[-1].strip()
    src = c.m.group(2).strip()
    if last_seg(tgt) != last_seg(src):
        e = ip.dispatch('<%s as From<%s>>::from' % (tgt, src), [e], tgt)
    return err(ip, e)


@model(r'^<(.*) as (?:std::convert::)?From<(.*)>>::from$')
def m_from_generic(c, x):
    """Fallback From: identity when both types are the same; known lossless conversions."""
    a, b = last_seg(c.m.group(1)), last_seg(c.m.group(2))
    ip = c.ip
    cands = ip.prog.lookup(c.callee)
    if cands:
        tgt = ip.pick_candidate(c.callee, cands, [x], c.dest_ty, c.frame, c.argops)
        return ip.call_function(tgt, [x])
    if a == b:
        return x
    if a == 'String' and b in ('&str', '&mutstr', '&String'):
        return Seq(list(items(ip, x)), 'string')
    if a == 'String' and b in ('Cow<str>', 'Cow<,str>', "Cow<'_,str>"):
        return Seq(list(items(ip, x)), 'string')
    if a == 'String' and b == 'char':
        return Seq(encode_char(ip, x), 'string')
    if a in ('Vec<u8>',) and b in ('&[u8]', '&str', 'String'):
        return Seq(list(items(ip, x)), 'vec')
    if a == 'BytesMut' and b in ('&[u8]', '&str'):
        return Seq(list(items(ip, x)), 'bytesmut')
    ia, ib = int_type(a), int_type(b)
    if ia and ib and isinstance(x, BV):
        return ip.cast(x, b, a, 'IntToInt', c.callee)
    if a.startswith('Box<') or a.startswith('Arc<') or a.startswith('Rc<'):
        return Ptr(Cell(x, 'box'), ())
    if a.startswith('Option<'):
        return some(ip, x)
    if (a.startswith('BTreeMap<') or a.startswith('HashMap<')) and b.startswith('['):
        from .collections_ import map_insert
        m = MapV(a.split('<')[0].lower())
        for kv in items(ip, x):
            map_insert(ip, m, kv.fields[0], kv.fields[1])
        return m
    if (a.startswith('BTreeSet<') or a.startswith('HashSet<')) and b.startswith('['):
        from .collections_ import map_insert
        m = MapV(a.split('<')[0].lower())
        for k in items(ip, x):
            map_insert(ip, m, k, unit())
        return m
    if a.startswith('Vec<') and b.startswith('['):
        return Seq(list(items(ip, x)), 'vec')
    raise Inconclusive("From conversion %s <- %s" % (a, b))


@model(r'^<(.*) as (?:std::convert::)?Into<(.*)>>::into$')
def m_into_generic(c, x):
    src, dst = c.m.group(1), c.m.group(2)
    return c.ip.dispatch('<%s as From<%s>>::from' % (dst, src), [x], c.dest_ty)


@model(r'^<(.*) as (?:std::convert::)?TryInto<(.*)>>::try_into$')
def m_try_into(c, x):
    ip = c.ip
    src, dst = last_seg(c.m.group(1)), last_seg(c.m.group(2))
    it, ist = int_type(dst), int_type(src)
    if it and ist and isinstance(x, BV):
        return int_try_from(ip, x, ist, it, dst)
    cands = ip.prog.lookup('<%s as TryFrom<%s>>::try_from' % (c.m.group(2), c.m.group(1)))
    if cands:
        return ip.call_function(cands[0], [x])
    raise Inconclusive("TryInto %s -> %s" % (src, dst))


@model(r'^<(\w+) as (?:std::convert::)?TryFrom<(\w+)>>::try_from$')
def m_try_from_int(c, x):
    ip = c.ip
    dst, src = c.m.group(1), c.m.group(2)
    it, ist = int_type(dst), int_type(src)
    if it and ist and isinstance(x, BV):
        return int_try_from(ip, x, ist, it, dst)
    raise Inconclusive("TryFrom " + c.callee)


def int_try_from(ip, x, ist, it, dst):
    sw, ss = ist
    dw, ds = it
    lo = -(1 << (dw - 1)) if ds else 0
    hi = (1 << (dw - 1)) - 1 if ds else (1 << dw) - 1
    if x.concrete:
        v = x.sint() if ss else x.v
        if lo <= v <= hi:
            return ok(ip, BV(dw, v))
        return err(ip, Opaque('TryFromIntError', 'err'))
    W = max(sw, dw) + 1
    ex = z3.SignExt(W - sw, x.v) if ss else z3.ZeroExt(W - sw, x.v)
    inr = z3.And(ex >= z3.BitVecVal(lo, W), ex <= z3.BitVecVal(hi, W))
    if ip.branch(inr, 'try_from'):
        return ok(ip, ip.cast(x, 'i64' if ss else 'u64', dst, 'IntToInt', 'try_from') if sw == 64 else
                  ip.cast(x, {True: 'i', False: 'u'}[ss] + str(sw), dst, 'IntToInt', 'try_from'))
    return err(ip, Opaque('TryFromIntError', 'err'))


# ----------------------------------------------------------------------------- Option / Result
@model(r'^(?:std::option::)?Option::<.*>::(is_some|is_none)$')
def m_option_is(c, o):
    ip = c.ip
    o = deref(ip, o)
    d = o.discr
    want = 1 if c.m.group(1) == 'is_some' else 0
    if d.concrete:
        return BV(1, int(d.v == want))
    return mkbool(d.v == z3.BitVecVal(want, d.w))


@model(r'^(?:std::result::)?Result::<.*>::(is_ok|is_err)$')
def m_result_is(c, o):
    ip = c.ip
    o = deref(ip, o)
    d = o.discr
    want = 0 if c.m.group(1) == 'is_ok' else 1
    if d.concrete:
        return BV(1, int(d.v == want))
    return mkbool(d.v == z3.BitVecVal(want, d.w))


@model(r'^(?:std::option::)?Option::<.*>::(unwrap|expect)$')
def m_option_unwrap(c, o, *rest):
    ip = c.ip
    if variant(ip, o, 'Option') == 'Some':
        return payload(o, 'Some')[0]
    raise Panic(c.callee, 'called `Option::unwrap()` on a `None` value')


@model(r'^(?:std::result::)?Result::<.*>::(unwrap|expect)$')
def m_result_unwrap(c, o, *rest):
    ip = c.ip
    if variant(ip, o, 'Result') == 'Ok':
        return payload(o, 'Ok')[0]
    raise Panic(c.callee, 'called `Result::unwrap()` on an `Err` value')


@model(r'^(?:std::result::)?Result::<.*>::(unwrap_err|expect_err)$')
def m_result_unwrap_err(c, o, *rest):
    ip = c.ip
    if variant(ip, o, 'Result') == 'Err':
        return payload(o, 'Err')[0]
    raise Panic(c.callee, 'called `Result::unwrap_err()` on an `Ok` value')


@model(r'^(?:std::option::)?Option::<.*>::unwrap_or$')
def m_option_unwrap_or(c, o, d):
    ip = c.ip
    if variant(ip, o, 'Option') == 'Some':
        return payload(o, 'Some')[0]
    return d


@model(r'^(?:std::result::)?Result::<.*>::unwrap_or$')
def m_result_unwrap_or(c, o, d):
    ip = c.ip
    if variant(ip, o, 'Result') == 'Ok':
        return payload(o, 'Ok')[0]
    return d


@model(r'^(?:std::option::)?Option::<.*>::unwrap_or_default$')
def m_option_unwrap_or_default(c, o):
    ip = c.ip
    if variant(ip, o, 'Option') == 'Some':
        return payload(o, 'Some')[0]
    return default_of(ip, c.dest_ty, c)


@model(r'^(?:std::option::)?Option::<.*>::unwrap_or_else::<')
def m_option_unwrap_or_else(c, o, f):
    ip = c.ip
    if variant(ip, o, 'Option') == 'Some':
        return payload(o, 'Some')[0]
    return ip.call_value(f, [], c.dest_ty)


@model(r'^(?:std::result::)?Result::<.*>::unwrap_or_else::<')
def m_result_unwrap_or_else(c, o, f):
    ip = c.ip
    if variant(ip, o, 'Result') == 'Ok':
        return payload(o, 'Ok')[0]
    return ip.call_value(f, [payload(o, 'Err')[0]], c.dest_ty)


@model(r'^(?:std::option::)?Option::<.*>::map::<')
def m_option_map(c, o, f):
    ip = c.ip
    if variant(ip, o, 'Option') == 'Some':
        return some(ip, ip.call_value(f, [payload(o, 'Some')[0]]))
    return none(ip)


@model(r'^(?:std::option::)?Option::<.*>::and_then::<')
def m_option_and_then(c, o, f):
    ip = c.ip
    if variant(ip, o, 'Option') == 'Some':
        return ip.call_value(f, [payload(o, 'Some')[0]])
    return none(ip)


@model(r'^(?:std::option::)?Option::<.*>::map_or::<')
def m_option_map_or(c, o, d, f):
    ip = c.ip
    if variant(ip, o, 'Option') == 'Some':
        return ip.call_value(f, [payload(o, 'Some')[0]])
    return d


@model(r'^(?:std::option::)?Option::<.*>::ok_or::<')
def m_option_ok_or(c, o, e):
    ip = c.ip
    if variant(ip, o, 'Option') == 'Some':
        return ok(ip, payload(o, 'Some')[0])
    return err(ip, e)


@model(r'^(?:std::option::)?Option::<.*>::ok_or_else::<')
def m_option_ok_or_else(c, o, f):
    ip = c.ip
    if variant(ip, o, 'Option') == 'Some':
        return ok(ip, payload(o, 'Some')[0])
    return err(ip, ip.call_value(f, []))


@model(r'^(?:std::option::)?Option::<.*>::(as_ref|as_mut)$')
def m_option_as_ref(c, p):
    ip = c.ip
    o = deref(ip, p)
    if variant(ip, o, 'Option') == 'Some':
        return some(ip, Ptr(p.cell, p.path + (('v', 'Some'), ('f', 0))))
    return none(ip)


@model(r'^(?:std::option::)?Option::<.*>::as_deref$')
def m_option_as_deref(c, p):
    ip = c.ip
    o = deref(ip, p)
    if variant(ip, o, 'Option') == 'Some':
        return some(ip, Ptr(p.cell, p.path + (('v', 'Some'), ('f', 0))))
    return none(ip)


@model(r'^(?:std::option::)?Option::<.*>::take$')
def m_option_take(c, p):
    ip = c.ip
    o = ip.load(p.cell, p.path)
    ip.store(p.cell, p.path, none(ip))
    return o


@model(r'^(?:std::option::)?Option::<.*>::(cloned|copied)$')
def m_option_cloned(c, o):
    ip = c.ip
    if variant(ip, o, 'Option') == 'Some':
        return some(ip, deep_clone(deref(ip, payload(o, 'Some')[0])))
    return none(ip)


@model(r'^(?:std::option::)?Option::<.*>::is_some_and::<')
def m_option_is_some_and(c, o, f):
    ip = c.ip
    if variant(ip, o, 'Option') == 'Some':
        return ip.call_value(f, [payload(o, 'Some')[0]])
    return BV(1, 0)


@model(r'^(?:std::result::)?Result::<.*>::map_err::<')
def m_result_map_err(c, r, f):
    ip = c.ip
    if variant(ip, r, 'Result') == 'Ok':
        return r
    return err(ip, ip.call_value(f, [payload(r, 'Err')[0]]))


@model(r'^(?:std::result::)?Result::<.*>::map::<')
def m_result_map(c, r, f):
    ip = c.ip
    if variant(ip, r, 'Result') == 'Ok':
        return ok(ip, ip.call_value(f, [payload(r, 'Ok')[0]]))
    return r


@model(r'^(?:std::result::)?Result::<.*>::and_then::<')
def m_result_and_then(c, r, f):
    ip = c.ip
    if variant(ip, r, 'Result') == 'Ok':
        return ip.call_value(f, [payload(r, 'Ok')[0]])
    return r


@model(r'^(?:std::result::)?Result::<.*>::ok$')
def m_result_ok(c, r):
    ip = c.ip
    if variant(ip, r, 'Result') == 'Ok':
        return some(ip, payload(r, 'Ok')[0])
    return none(ip)


@model(r'^(?:std::result::)?Result::<.*>::err$')
def m_result_err(c, r):
    ip = c.ip
    if variant(ip, r, 'Result') == 'Err':
        return some(ip, payload(r, 'Err')[0])
    return none(ip)


@model(r'^(?:std::result::)?Result::<.*>::as_ref$')
def m_result_as_ref(c, p):
    ip = c.ip
    o = deref(ip, p)
    v = variant(ip, o, 'Result')
    return EnumV(o.discr, {v: [Ptr(p.cell, p.path + (('v', v), ('f', 0)))]}, 'Result')


# ----------------------------------------------------------------------------- Clone / Default / eq
@model(r'^<(.*) as (?:std::clone::)?Clone>::clone$')
def m_clone(c, p):
    ip = c.ip
    ty = c.m.group(1)
    cands = ip.prog.lookup(c.callee)
    if cands:
        return ip.call_function(cands[0], [p])
    v = deref(ip, p) if not (ty.startswith('&') ) else ip.load(p.cell, p.path)
    t = last_seg(ty)
    if t.startswith('Arc<') or t.startswith('Rc<'):
        return ip.load(p.cell, p.path)      # shares the allocation
    if t.startswith('Box<'):
        b = ip.load(p.cell, p.path)
        inner_ty = ty[ty.index('<') + 1:-1]
        return Ptr(Cell(ip.dispatch('<%s as Clone>::clone' % inner_ty, [b], inner_ty), 'box'), ())
    hook = getattr(ip, 'clone_hook', None)
    if hook:
        r = hook(ip, t, v)
        if r is not NotImplemented:
            return r
    return deep_clone(v)


def default_of(ip, ty, c=None):
    t = last_seg(ty or '')
    it = int_type(t)
    if it:
        return BV(it[0], 0)
    if t == 'String':
        return Seq([], 'string')
    if t.startswith('Vec<') or t.startswith('VecDeque<'):
        return Seq([], 'vec')
    if t == 'BytesMut':
        return Seq([], 'bytesmut')
    if t.startswith('Option<'):
        return none(ip)
    if t.startswith('HashMap<') or t.startswith('BTreeMap<') or t.startswith('HashSet<') or t.startswith('BTreeSet<'):
        return MapV(t.split('<')[0].lower())
    if t == '()':
        return unit()
    if t.startswith('Arc<') or t.startswith('Rc<') or t.startswith('Box<'):
        return Ptr(Cell(default_of(ip, t[t.index('<') + 1:-1], c), 'heap'), ())
    m = re.match(r'^Atomic(Bool|U8|U16|U32|U64|Usize|I32|I64)$', t)
    if m:
        w = {'Bool': 1, 'U8': 8, 'U16': 16, 'U32': 32, 'U64': 64, 'Usize': 64, 'I32': 32, 'I64': 64}[m.group(1)]
        return Agg([BV(w, 0)], 'Atomic')
    cands = ip.prog.lookup('<%s as Default>::default' % ty)
    if cands:
        return ip.call_function(cands[0], [])
    raise Inconclusive("Default for " + t)


@model(r'^<(.*) as (?:std::default::)?Default>::default$')
def m_default(c):
    ip = c.ip
    cands = ip.prog.lookup(c.callee)
    if cands:
        return ip.call_function(cands[0], [])
    return default_of(ip, c.m.group(1), c)


@model(r'^<(.*) as (?:std::cmp::)?PartialEq(?:<(.*)>)?>::(eq|ne)$')
def m_partial_eq(c, a, b):
    ip = c.ip
    cands = ip.prog.lookup(c.callee)
    if cands:
        tgt = ip.pick_candidate(c.callee, cands, [a, b], c.dest_ty, c.frame, c.argops)
        r = ip.call_function(tgt, [a, b])
    else:
        r = mkbool(val_eq(ip, a, b))
    if c.m.group(3) == 'ne':
        return mkbool(neg(as_cond(r)))
    return r


@model(r'^<(\w+) as (?:std::cmp::)?(?:PartialOrd|Ord)(?:<\w+>)?>::(lt|le|gt|ge|cmp|partial_cmp|max|min)$')
def m_partial_ord_int(c, a, b):
    ip = c.ip
    it = int_type(c.m.group(1))
    op = c.m.group(2)
    if it is None and c.m.group(1) == 'Level':
        return BV(1, 0)          # log::Level <= LevelFilter (the path is elided in a crate that imports log's names): logging disabled
    if it is None:
        raise Inconclusive("PartialOrd on " + c.m.group(1))
    if op in ('max', 'min'):
        x, y = a, b
        cond = as_cond(ip.binop('Ge' if op == 'max' else 'Le', x, y, it[1], c.callee))
        if isinstance(cond, bool):
            return x if cond else y
        return bv(x.w, z3.If(cond, x.z(), y.z()))
    x, y = deref(ip, a), deref(ip, b)
    if op in ('cmp', 'partial_cmp'):
        r = ip.binop('Cmp', x, y, it[1], c.callee)
        return some(ip, r) if op == 'partial_cmp' else r
    return ip.binop({'lt': 'Lt', 'le': 'Le', 'gt': 'Gt', 'ge': 'Ge'}[op], x, y, it[1], c.callee)


@model(r'^(?:std|core)::cmp::(max|min)::<(\w+)>$')
def m_cmp_maxmin(c, a, b):
    ip = c.ip
    it = int_type(c.m.group(2))
    if it is None:
        raise Inconclusive(c.callee)
    cond = as_cond(ip.binop('Ge' if c.m.group(1) == 'max' else 'Le', a, b, it[1], c.callee))
    if isinstance(cond, bool):
        return a if cond else b
    return bv(a.w, z3.If(cond, a.z(), b.z()))


# ----------------------------------------------------------------------------- integer helpers
@model(r'^(?:core|std)::num::<impl (\w+)>::(wrapping_add|wrapping_sub|wrapping_mul)$')
def m_wrapping(c, a, b):
    op = {'wrapping_add': 'Add', 'wrapping_sub': 'Sub', 'wrapping_mul': 'Mul'}[c.m.group(2)]
    return c.ip.binop(op, a, b, False, c.callee)


@model(r'^(?:core|std)::num::<impl (\w+)>::(checked_add|checked_sub|checked_mul)$')
def m_checked(c, a, b):
    ip = c.ip
    it = int_type(c.m.group(1))
    op = {'checked_add': 'AddWithOverflow', 'checked_sub': 'SubWithOverflow', 'checked_mul': 'MulWithOverflow'}[c.m.group(2)]
    r = ip.binop(op, a, b, it[1], c.callee)
    if ip.branch(r.fields[1], 'checked'):
        return none(ip)
    return some(ip, r.fields[0])


@model(r'^(?:core|std)::num::<impl (\w+)>::(saturating_sub|saturating_add)$')
def m_saturating(c, a, b):
    ip = c.ip
    it = int_type(c.m.group(1))
    w, s = it
    if s:
        raise Inconclusive("signed saturating")
    if c.m.group(2) == 'saturating_sub':
        ge = as_cond(ip.binop('Ge', a, b, False, c.callee))
        d = ip.binop('Sub', a, b, False, c.callee)
        if isinstance(ge, bool):
            return d if ge else BV(w, 0)
        return bv(w, z3.If(ge, d.z(), z3.BitVecVal(0, w)))
    r = ip.binop('AddWithOverflow', a, b, False, c.callee)
    ov = as_cond(r.fields[1])
    if isinstance(ov, bool):
        return BV(w, (1 << w) - 1) if ov else r.fields[0]
    return bv(w, z3.If(ov, z3.BitVecVal((1 << w) - 1, w), r.fields[0].z()))


@model(r'^(?:core|std)::num::<impl (\w+)>::(rotate_left|rotate_right)$')
def m_rotate(c, a, n):
    if not n.concrete:
        raise Inconclusive("symbolic rotate amount")
    k = n.v % a.w
    if a.concrete:
        v = a.v
        if c.m.group(2) == 'rotate_left':
            return BV(a.w, (v << k) | (v >> (a.w - k)))
        return BV(a.w, (v >> k) | (v << (a.w - k)))
    return bv(a.w, z3.RotateLeft(a.v, k) if c.m.group(2) == 'rotate_left' else z3.RotateRight(a.v, k))


@model(r'^(?:core|std)::num::<impl (\w+)>::(from_be_bytes|from_le_bytes)$')
def m_from_bytes(c, arr):
    ip = c.ip
    it = int_type(c.m.group(1))
    bs = items(ip, arr)
    if c.m.group(2) == 'from_le_bytes':
        bs = list(reversed(bs))
    if all(b.concrete for b in bs):
        v = 0
        for b in bs:
            v = (v << 8) | b.v
        return BV(it[0], v)
    return bv(it[0], z3.Concat(*[b.z() for b in bs]) if len(bs) > 1 else bs[0].z())


@model(r'^(?:core|std)::num::<impl (\w+)>::(to_be_bytes|to_le_bytes)$')
def m_to_bytes(c, x):
    it = int_type(c.m.group(1))
    n = it[0] // 8
    out = []
    for i in range(n):
        hi = it[0] - 1 - 8 * i
        out.append(BV(8, (x.v >> (hi - 7)) & 0xff) if x.concrete else bv(8, z3.Extract(hi, hi - 7, x.v)))
    if c.m.group(2) == 'to_le_bytes':
        out.reverse()
    return Seq(out, 'array')


@model(r'^(?:core|std)::num::<impl (\w+)>::(pow)$')
def m_pow(c, a, n):
    if a.concrete and n.concrete:
        return BV(a.w, a.v ** n.v)
    raise Inconclusive("symbolic pow")


@model(r'^(?:core|std)::num::<impl (\w+)>::(abs|unsigned_abs)$')
def m_abs(c, a):
    if a.concrete:
        return BV(a.w, abs(a.sint()))
    return bv(a.w, z3.If(a.v < 0, -a.v, a.v))


@model(r'^(?:core|std)::char::methods::<impl char>::(is_ascii_digit|is_numeric|is_alphanumeric|is_ascii_alphanumeric|is_alphabetic|is_whitespace|is_ascii_whitespace|is_ascii_uppercase|is_ascii_lowercase)$|^char::(is_ascii_digit|is_numeric)$')
def m_char_class(c, p):
    ip = c.ip
    ch = deref(ip, p)
    kind = c.m.group(1) or c.m.group(2)
    z = ch.z()

    def rng(a, b):
        return z3.And(z3.UGE(z, z3.BitVecVal(ord(a), ch.w)), z3.ULE(z, z3.BitVecVal(ord(b), ch.w)))
    ascii_only = z3.ULT(z, z3.BitVecVal(128, ch.w))
    if not ch.concrete:
        # non-ASCII symbolic chars are outside the harness alphabets; assume ASCII
        ip.assume(ascii_only)
    if kind in ('is_ascii_digit', 'is_numeric'):
        r = rng('0', '9')
    elif kind in ('is_alphanumeric', 'is_ascii_alphanumeric'):
        r = z3.Or(rng('0', '9'), rng('a', 'z'), rng('A', 'Z'))
    elif kind == 'is_alphabetic':
        r = z3.Or(rng('a', 'z'), rng('A', 'Z'))
    elif kind in ('is_whitespace', 'is_ascii_whitespace'):
        r = z3.Or(*[z == z3.BitVecVal(k, ch.w) for k in (9, 10, 12, 13, 32)] + ([z == z3.BitVecVal(11, ch.w)] if kind == 'is_whitespace' else []))
    elif kind == 'is_ascii_uppercase':
        r = rng('A', 'Z')
    else:
        r = rng('a', 'z')
    return mkbool(r)


def encode_char(ip, ch):
    if ch.concrete:
        return [BV(8, b) for b in chr(ch.v).encode('utf8')]
    ip.assume(z3.ULT(ch.v, z3.BitVecVal(128, ch.w)))
    return [bv(8, z3.Extract(7, 0, ch.v))]


# ----------------------------------------------------------------------------- smart pointers / pin / futures
@model(r'^<(?:std::sync::|std::boxed::|std::rc::)?(?:Arc|Rc|Box)<.*> as (?:std::ops::)?(?:Deref|DerefMut|AsRef<.*>|Borrow<.*>)>::(?:deref|deref_mut|as_ref|borrow)$')
def m_arc_deref(c, p):
    return c.ip.load(p.cell, p.path)


@model(r'^(?:std::sync::|std::boxed::|std::rc::)?(?:Arc|Rc|Box)::<.*>::(new|pin)$')
def m_arc_new(c, v):
    return Ptr(Cell(v, 'heap'), ())


@model(r'^(?:std::sync::)?Arc::<.*>::(strong_count)$')
def m_arc_count(c, p):
    return c.ip.fresh(64, 'strong_count')


@model(r'^(?:std::pin::)?Pin::<.*>::(new_unchecked|new)$')
def m_pin_new(c, p):
    return Agg([p], 'Pin')


@model(r'^(?:std::pin::)?Pin::<.*>::(get_mut|get_unchecked_mut|get_ref|into_inner|as_mut|into_ref)$')
def m_pin_get(c, p):
    ip = c.ip
    v = p if isinstance(p, Agg) else deref(ip, p)
    if c.m.group(1) in ('as_mut', 'into_ref'):
        return Agg([v.fields[0]], 'Pin')
    return v.fields[0]


@model(r'^<Pin<.*> as (?:std::ops::)?(?:Deref|DerefMut)>::(deref|deref_mut)$')
def m_pin_deref(c, p):
    v = deref(c.ip, p) if isinstance(p, Ptr) else p
    return v.fields[0]


@model(r'^(?:std::sync::|std::rc::|alloc::sync::)?(?:Arc|Rc)::<.*>::ptr_eq$')
def m_arc_ptr_eq(c, a, b):
    """Arc::ptr_eq(&a, &b): the two handles point to the same allocation."""
    ip = c.ip
    x = ip.load(a.cell, a.path) if isinstance(a, Ptr) else a        # one level: the Arc handle itself
    y = ip.load(b.cell, b.path) if isinstance(b, Ptr) else b
    same = isinstance(x, Ptr) and isinstance(y, Ptr) and x.cell is y.cell and tuple(x.path) == tuple(y.path)
    return BV(1, int(same))


@model(r'^<.* as (?:std::future::)?IntoFuture>::into_future$')
def m_into_future(c, f):
    return f


@model(r'^<\{async (?:fn body of|block@|closure body of).*\} as (?:futures::|std::future::)?Future>::poll$')
def m_future_poll(c, pin, cx):
    ip = c.ip
    ptr = pin.fields[0]
    co = ip.load(ptr.cell, ptr.path)
    if isinstance(co, Closure):
        return ip.call_function(co.fn, [pin, cx])
    h = getattr(ip, 'poll_hook', None)
    if h:
        return h(ip, co, ptr)
    return ip.poll(ptr)          # (model-made futures that are awaited like an `async fn`: the interpreter knows them)


@model(r'^<Pin<Box<dyn (?:futures::|std::future::)?Future<.*> as (?:futures::|std::future::)?Future>::poll$')
def m_boxed_future_poll(c, pin, cx):
    ip = c.ip
    ptr = pin.fields[0]                 # &mut Pin<Box<dyn Future>>
    inner = ip.load(ptr.cell, ptr.path)  # Pin<Box<..>>  = Agg([Ptr])
    box = inner.fields[0] if isinstance(inner, Agg) else inner
    co = ip.load(box.cell, box.path)
    if isinstance(co, Closure):
        return ip.call_function(co.fn, [Agg([box], 'Pin'), cx])
    raise Inconclusive("poll of boxed %r" % (co,))


# ----------------------------------------------------------------------------- logging
@model(r'^<(?:log::)?Level as PartialOrd<(?:log::)?LevelFilter>>::le$')
def m_log_le(c, a, b):
    return BV(1, 0)          # logging disabled: `lvl <= STATIC_MAX_LEVEL` is taken as false


@model(r'^(?:log::)?max_level$')
def m_log_max(c):
    return EnumV(BV(64, 0), {}, 'LevelFilter')


@model(r'^log::__private_api_log$|^log::__private_api::log')
def m_log_log(c, *a):
    return unit()


@model(r'^log::__private_api::(enabled|loc)')
def m_log_enabled(c, *a):
    return BV(1, 0)


@model(r'^(?:std::rt::|core::panicking::)?(panic|panic_fmt|begin_panic|panic_display|panic_explicit|unreachable_display)(::<.*>)?$|^core::panicking::|^std::rt::panic')
def m_panic(c, *a):
    ip = c.ip
    msg = ''
    if a:
        try:
            from .fmt import render_arguments
            b = render_arguments(ip, a[0])
            bs = bytes(x.v if x.concrete else 63 for x in b)
            msg = bs.decode('utf8', 'replace')
        except Exception:
            try:
                bs = bytes_of(ip, a[0])
                msg = bs.decode('utf8', 'replace') if bs is not None else ''
            except Exception:
                msg = ''
    raise Panic(c.callee, 'explicit panic: ' + msg)


@model(r'^(?:core|std)::(?:option|result)::(?:unwrap_failed|expect_failed)$')
def m_unwrap_failed(c, *a):
    raise Panic(c.callee, 'unwrap failed')


@model(r'^(?:std|core)::hint::(unreachable_unchecked|assert_unchecked)')
def m_hint(c, *a):
    return unit()


@model(r'^(?:std::process::)?(exit|abort)$|^std::process::(exit|abort)$')
def m_exit(c, *a):
    raise StopPath('process_exit', {'callee': c.callee})


@model(r'^(?:std::option::)?Option::<.*>::map_or_else::<')
def m_option_map_or_else(c, o, d, f):
    ip = c.ip
    if variant(ip, o, 'Option') == 'Some':
        return ip.call_value(f, [payload(o, 'Some')[0]])
    return ip.call_value(d, [])


@model(r'^(?:std::result::)?Result::<.*>::map_or_else::<')
def m_result_map_or_else(c, o, d, f):
    ip = c.ip
    if variant(ip, o, 'Result') == 'Ok':
        return ip.call_value(f, [payload(o, 'Ok')[0]])
    return ip.call_value(d, [payload(o, 'Err')[0]])


@model(r'^(?:std::option::)?Option::<.*>::(filter)::<')
def m_option_filter(c, o, f):
    ip = c.ip
    if variant(ip, o, 'Option') == 'Some':
        v = payload(o, 'Some')[0]
        if ip.branch(ip.call_value(f, [Ptr(Cell(v, 'f'), ())]), 'filter'):
            return o
    return none(ip)


@model(r'^(?:std::option::)?Option::<.*>::(or)$')
def m_option_or(c, o, d):
    ip = c.ip
    if variant(ip, o, 'Option') == 'Some':
        return o
    return d


@model(r'^(?:std::option::)?Option::<.*>::(or_else)::<')
def m_option_or_else(c, o, f):
    ip = c.ip
    if variant(ip, o, 'Option') == 'Some':
        return o
    return ip.call_value(f, [])


@model(r'^(?:std::option::)?Option::<.*>::(insert|get_or_insert)$')
def m_option_insert(c, p, v):
    ip = c.ip
    o = ip.load(p.cell, p.path)
    if c.m.group(1) == 'insert' or variant(ip, o, 'Option') == 'None':
        ip.store(p.cell, p.path, some(ip, v))
    return Ptr(p.cell, p.path + (('v', 'Some'), ('f', 0)))


@model(r'^(?:std::option::)?Option::<.*>::(replace)$')
def m_option_replace(c, p, v):
    ip = c.ip
    o = ip.load(p.cell, p.path)
    ip.store(p.cell, p.path, some(ip, v))
    return o


@model(r'^<.* as (?:std::ops::)?Drop>::drop$')
def m_drop_trait(c, p):
    ip = c.ip
    cands = ip.prog.lookup(c.callee)
    if cands:
        return ip.call_function(cands[0], [p])
    return unit()
