"""Sorting through closures, arc_swap::ArcSwap, misc."""
import re
import z3
from ..interp import model, Inconclusive, Panic
from ..values import *
from .util import *


@model(r'^(?:\w+::)*slice::<impl \[.*\]>::(sort_by|sort_by_key|sort_unstable_by|sort_unstable_by_key|sort_by_cached_key)::<')
def m_sort_by(c, p, f):
    """Stable insertion sort; comparisons go through the closure (forking on symbolic outcomes)."""
    ip = c.ip
    s_ = seq(ip, p)
    its = list(s_.items)
    by_key = 'key' in c.m.group(1)
    keys = [ip.call_value(f, [Ptr(Cell(x, 'k'), ())]) for x in its] if by_key else None

    def less(i, j):
        if by_key:
            a, b = keys[i], keys[j]
            if not (isinstance(a, BV) and isinstance(b, BV)):
                raise Inconclusive("sort_by_key with non-integer keys")
            return ip.branch(ip.binop('Lt', a, b, True, 'sort'), 'sort')
        o = ip.call_value(f, [Ptr(Cell(its[i], 'a'), ()), Ptr(Cell(its[j], 'b'), ())])
        d = o.discr
        return ip.branch((d.v == ((1 << d.w) - 1)) if not d.concrete else (d.sint() == -1), 'sort')
    order = []
    for i in range(len(its)):
        k = len(order)
        while k > 0 and less(i, order[k - 1]):
            k -= 1
        order.insert(k, i)
    base = s_.base if isinstance(s_, SeqView) else s_
    off = s_.start if isinstance(s_, SeqView) else 0
    for k, i in enumerate(order):
        base.items[off + k] = its[i]
    return unit()


# ----------------------------------------------------------------------------- arc_swap::ArcSwap (single-threaded semantics)
@model(r'^(?:arc_swap::)?ArcSwapAny::<.*>::(from_pointee|new)$')
def m_arcswap_new(c, v):
    if c.m.group(1) == 'from_pointee':
        v = Ptr(Cell(v, 'arc'), ())
    return Agg([v], 'ArcSwap')


@model(r'^(?:arc_swap::)?ArcSwapAny::<.*>::(load|load_full)$')
def m_arcswap_load(c, p):
    sw = deref(c.ip, p)
    if not (isinstance(sw, Agg) and sw.ty == 'ArcSwap'):
        raise Inconclusive("ArcSwap::load on %r" % (sw,))
    if c.m.group(1) == 'load_full':
        return sw.fields[0]
    return Agg([sw.fields[0]], 'ArcGuard')


@model(r'^(?:arc_swap::)?ArcSwapAny::<.*>::(store|swap)$')
def m_arcswap_store(c, p, v):
    sw = deref(c.ip, p)
    old = sw.fields[0]
    sw.fields[0] = v
    c.ip.env.setdefault('arcswap_stores', []).append((sw, v))
    return unit() if c.m.group(1) == 'store' else old


@model(r'^<(?:arc_swap::)?Guard<.*> as (?:std::ops::)?Deref>::deref$')
def m_arcguard_deref(c, g):
    g = deref(c.ip, g) if isinstance(g, Ptr) else g
    if isinstance(g, Agg) and g.ty == 'ArcGuard':
        return Ptr(Cell(g.fields[0], 'guarded'), ())
    raise Inconclusive("Guard deref on %r" % (g,))


# ----------------------------------------------------------------------------- bb8 builder chain (opaque: only max_size is recorded)
@model(r'^bb8::Pool::<.*>::builder$')
def m_bb8_builder(c):
    return Opaque('Bb8Builder', 'builder', {})


@model(r'^bb8::Builder::<.*?>::(\w+)(?:::<.*>)?$')
def m_bb8_builder_step(c, b, *a):
    step = c.m.group(1)
    d = dict(b.data)
    if step in ('build_unchecked', 'build'):
        pool = Opaque('Bb8Pool', 'pool', {'settings': d, 'manager': a[0] if a else None})
        if step == 'build':
            return Opaque('HookFuture', 'bb8_build', pool)
        return pool
    d[step] = a[0] if a else None
    return Opaque('Bb8Builder', 'builder', d)


@model(r'^(?:tokio::sync::)?Notify::new$')
def m_notify_new(c):
    return Opaque('Notify', 'notify')


@model(r'^tokio::(?:task::)?spawn::<')
def m_tokio_spawn(c, fut):
    c.ip.env.setdefault('spawned', []).append(fut)
    return Opaque('JoinHandle', 'spawned')


# ----------------------------------------------------------------------------- md-5 / sha-1 digests: uninterpreted functions of the input bytes
_DIGEST_UF = {}


def digest_uf(algo, n, outbits):
    key = (algo, n)
    if key not in _DIGEST_UF:
        _DIGEST_UF[key] = z3.Function('%s_%d' % (algo, n), *([z3.BitVecSort(8)] * n + [z3.BitVecSort(outbits)]))
    return _DIGEST_UF[key]


def digest_bytes(algo, data, outbytes):
    """Digest of a byte list (BV8 values) as `outbytes` BV8 values: one uninterpreted function per input length, so two
    computations over equal inputs are equal and nothing else is assumed."""
    n = len(data)
    if n == 0:
        full = z3.BitVec('%s_empty' % algo, 8 * outbytes)
    else:
        full = digest_uf(algo, n, 8 * outbytes)(*[b.z() for b in data])
    out = []
    for i in range(outbytes):
        hi = 8 * outbytes - 1 - 8 * i
        out.append(bv(8, z3.Extract(hi, hi - 7, full)))
    return out


@model(r'^<(?:md5::|sha1::|sha2::)?\w*(?:CoreWrapper<.*>|Md5|Sha1|Sha256) as (?:md5::|sha1::|sha2::)?(?:digest::)?Digest>::(new|update|finalize|finalize_reset)(?:::<.*>)?$')
def m_digest(c, *a):
    ip = c.ip
    op = c.m.group(1)
    algo = 'md5' if 'Md5' in c.callee else ('sha1' if 'Sha1' in c.callee else 'sha256')
    size = {'md5': 16, 'sha1': 20, 'sha256': 32}[algo]
    if op == 'new':
        return Seq([], 'hasher_' + algo)
    if op == 'update':
        h = seq(ip, a[0])
        h.items.extend(items(ip, a[1]))
        return unit()
    h = seq(ip, a[0]) if isinstance(a[0], Ptr) else a[0]
    out = digest_bytes(algo, list(h.items), size)
    if op == 'finalize_reset':
        h.items.clear()
    return Seq(out, 'digest')


@model(r'^tokio::io::(?:BufReader|BufWriter|BufStream)::<.*>::(new|with_capacity)$')
def m_bufreader_new(c, *a):
    return Agg([a[-1]], 'BufReader')


@model(r'^tokio::io::(?:BufReader|BufWriter|BufStream)::<.*>::(get_mut|get_ref|into_inner)$')
def m_bufreader_get(c, p):
    v = deref(c.ip, p) if isinstance(p, Ptr) else p
    if c.m.group(1) == 'into_inner':
        return v.fields[0]
    return Ptr(p.cell, p.path + (('f', 0),))
