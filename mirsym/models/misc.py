"""Sorting through closures, arc_swap::ArcSwap, misc."""
import re
import z3
from ..interp import model, Inconclusive, Panic
from ..values import *
from .util import *


@model(r'^(?:\w+::)*slice::<impl \[.*\]>::(sort_by|sort_by_key|sort_unstable_by|sort_unstable_by_key|sort_by_cached_key)::<')
def m_sort_by(c, p, f):
    """Stable insertion sort; comparisons go through the closure (forking on symbolic outcomes)."""
    ip = c.ip
    s_ = seq(ip, p)
    its = list(s_.items)
    by_key = 'key' in c.m.group(1)
    keys = [ip.call_value(f, [Ptr(Cell(x, 'k'), ())]) for x in its] if by_key else None

    def less(i, j):
        if by_key:
            a, b = keys[i], keys[j]
            if not (isinstance(a, BV) and isinstance(b, BV)):
                raise Inconclusive("sort_by_key with non-integer keys")
            return ip.branch(ip.binop('Lt', a, b, True, 'sort'), 'sort')
        o = ip.call_value(f, [Ptr(Cell(its[i], 'a'), ()), Ptr(Cell(its[j], 'b'), ())])
        d = o.discr
        return ip.branch((d.v == ((1 << d.w) - 1)) if not d.concrete else (d.sint() == -1), 'sort')
    order = []
    for i in range(len(its)):
        k = len(order)
        while k > 0 and less(i, order[k - 1]):
            k -= 1
        order.insert(k, i)
    base = s_.base if isinstance(s_, SeqView) else s_
    off = s_.start if isinstance(s_, SeqView) else 0
    for k, i in enumerate(order):
        base.items[off + k] = its[i]
    return unit()


# ----------------------------------------------------------------------------- arc_swap::ArcSwap (single-threaded semantics)
@model(r'^(?:arc_swap::)?ArcSwapAny::<.*>::(from_pointee|new)$')
def m_arcswap_new(c, v):
    if c.m.group(1) == 'from_pointee':
        v = Ptr(Cell(v, 'arc'), ())
    return Agg([v], 'ArcSwap')


@model(r'^(?:arc_swap::)?ArcSwapAny::<.*>::(load|load_full)$')
def m_arcswap_load(c, p):
    sw = deref(c.ip, p)
    if not (isinstance(sw, Agg) and sw.ty == 'ArcSwap'):
        raise Inconclusive("ArcSwap::load on %r" % (sw,))
    if c.m.group(1) == 'load_full':
        return sw.fields[0]
    return Agg([sw.fields[0]], 'ArcGuard')


@model(r'^(?:arc_swap::)?ArcSwapAny::<.*>::(store|swap)$')
def m_arcswap_store(c, p, v):
    sw = deref(c.ip, p)
    old = sw.fields[0]
    sw.fields[0] = v
    c.ip.env.setdefault('arcswap_stores', []).append((sw, v))
    return unit() if c.m.group(1) == 'store' else old


@model(r'^<(?:arc_swap::)?Guard<.*> as (?:std::ops::)?Deref>::deref$')
def m_arcguard_deref(c, g):
    g = deref(c.ip, g) if isinstance(g, Ptr) else g
    if isinstance(g, Agg) and g.ty == 'ArcGuard':
        return Ptr(Cell(g.fields[0], 'guarded'), ())
    raise Inconclusive("Guard deref on %r" % (g,))


# ----------------------------------------------------------------------------- bb8 builder chain (opaque: only max_size is recorded)
@model(r'^bb8::Pool::<.*>::builder$')
def m_bb8_builder(c):
    return Opaque('Bb8Builder', 'builder', {})


@model(r'^bb8::Builder::<.*?>::(\w+)(?:::<.*>)?$')
def m_bb8_builder_step(c, b, *a):
    step = c.m.group(1)
    d = dict(b.data)
    if step in ('build_unchecked', 'build'):
        pool = Opaque('Bb8Pool', 'pool', {'settings': d, 'manager': a[0] if a else None})
        if step == 'build':
            return Opaque('HookFuture', 'bb8_build', pool)
        return pool
    d[step] = a[0] if a else None
    return Opaque('Bb8Builder', 'builder', d)


@model(r'^(?:tokio::sync::)?Notify::new$')
def m_notify_new(c):
    return Opaque('Notify', 'notify')


@model(r'^tokio::(?:task::)?spawn::<')
def m_tokio_spawn(c, fut):
    c.ip.env.setdefault('spawned', []).append(fut)
    return Opaque('JoinHandle', 'spawned')
