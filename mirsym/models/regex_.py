"""regex crate (Regex, RegexSet, Captures, Match) via mirsym.rx, and once_cell / OnceLock cells."""
import re
import z3
from ..interp import model, Inconclusive, Panic, Infeasible
from ..mirparse import Unsupported
from ..values import *
from .. import rx
from .util import *
from .strings import IterV


def compile_pat(ip, s):
    b = bytes_of(ip, s)
    if b is None:
        raise Inconclusive("symbolic regex pattern")
    pat = b.decode('utf8')
    cache = ip.prog.__dict__.setdefault('_rx_cache', {})
    if pat not in cache:
        try:
            cache[pat] = rx.Compiled(pat)
        except Unsupported as e:
            raise Inconclusive("regex outside supported subset: %s (%s)" % (pat, e))
    return cache[pat]


def obviously_invalid(pat):
    """Patterns the regex crate certainly rejects: unbalanced parentheses / brackets, dangling quantifier."""
    depth = 0
    i = 0
    incls = False
    while i < len(pat):
        ch = pat[i]
        if ch == '\\':
            i += 2
            continue
        if incls:
            if ch == ']':
                incls = False
        elif ch == '[':
            incls = True
        elif ch == '(':
            depth += 1
        elif ch == ')':
            depth -= 1
            if depth < 0:
                return True
        i += 1
    return depth != 0 or incls or pat[:1] in ('*', '+', '?')


@model(r'^regex::Regex::new$')
def m_regex_new(c, s):
    ip = c.ip
    b = bytes_of(ip, s)
    if b is not None and obviously_invalid(b.decode('utf8', 'replace')):
        return err(ip, Opaque('regex::Error', 'syntax'))
    return ok(ip, Opaque('Regex', 'regex', compile_pat(ip, s)))


@model(r'^regex::RegexSet::new::<')
def m_regexset_new(c, pats):
    ip = c.ip
    return ok(ip, Opaque('RegexSet', 'regexset', [compile_pat(ip, p) for p in items(ip, pats)]))


@model(r'^regex::RegexSet::len$')
def m_regexset_len(c, p):
    return BV(64, len(deref(c.ip, p).data))


def subject_bytes(ip, s):
    bs = []
    for b in items(ip, s):
        if b.concrete:
            if b.v >= 128:
                raise Inconclusive("non-ASCII regex subject")
            bs.append(b.v)
        else:
            ip.assume(z3.ULT(b.v, 128))
            bs.append(b.v)
    ip.env.setdefault('assumptions', set()).add('regex subjects are ASCII')
    return bs


@model(r'^regex::RegexSet::matches$')
def m_regexset_matches(c, p, s):
    ip = c.ip
    rs = deref(ip, p)
    bs = subject_bytes(ip, s)
    vals = ip.valuation([comp.is_match(bs) for comp in rs.data], 'regexset')
    out = [BV(64, i) for i, b in enumerate(vals) if b]
    return Opaque('SetMatches', 'setmatches', out)


@model(r'^<regex::SetMatches as (?:std::iter::)?IntoIterator>::into_iter$|^regex::SetMatches::(iter|into_iter)$')
def m_setmatches_into_iter(c, m):
    m = deref(c.ip, m) if isinstance(m, Ptr) else m
    return IterV(list(m.data))


@model(r'^regex::SetMatches::(matched_any|len)$')
def m_setmatches_any(c, m):
    m = deref(c.ip, m)
    return BV(1, int(bool(m.data))) if c.m.group(1) == 'matched_any' else BV(64, len(m.data))


@model(r'^regex::Regex::is_match$')
def m_regex_is_match(c, p, s):
    ip = c.ip
    comp = deref(ip, p).data
    f = comp.is_match(subject_bytes(ip, s))
    return mkbool(f)


@model(r'^regex::Regex::captures$')
def m_regex_captures(c, p, s):
    ip = c.ip
    comp = deref(ip, p).data
    bs = subject_bytes(ip, s)
    f = comp.is_match(bs)
    if not ip.branch(f, 'captures'):
        return none(ip)
    base = seq(ip, s)
    if comp.ngroups == 0:
        return some(ip, Opaque('Captures', 'captures', (base, None)))
    cands = comp.capture1(bs)
    k = ip.first_true([g for (_, _, g) in cands], 'capture_span')
    if k is not None:
        st, en, g = cands[k]
        return some(ip, Opaque('Captures', 'captures', (base, (st, en))))
    raise Inconclusive("regex matched but no capture span feasible (model gap) for " + comp.pat)


@model(r'^regex::Captures::<.*>::get$')
def m_captures_get(c, p, idx):
    ip = c.ip
    cap = deref(ip, p)
    base, span = cap.data
    i = concrete_int(ip, idx, 'capture index', 4)
    if i == 0:
        return some(ip, Opaque('Match', 'match', (base, 0, len(base.items))))
    if i == 1 and span is not None:
        return some(ip, Opaque('Match', 'match', (base, span[0], span[1])))
    if i == 1:
        return none(ip)
    raise Inconclusive("capture group %d not modelled" % i)


@model(r'^regex::Match::<.*>::as_str$')
def m_match_as_str(c, p):
    ip = c.ip
    m = deref(ip, p) if isinstance(p, Ptr) else p
    base, a, b = m.data
    return Ptr(Cell(SeqView(base, a, b - a), 'match'), ())


# ----------------------------------------------------------------------------- once_cell::OnceCell / std OnceLock
@model(r'^(?:once_cell::sync::)?OnceCell::<.*>::new$|^(?:std::sync::)?OnceLock::<.*>::new$')
def m_oncecell_new(c):
    return Agg([none(c.ip)], 'OnceCell')


@model(r'^(?:once_cell::sync::)?OnceCell::<.*>::set$|^(?:std::sync::)?OnceLock::<.*>::set$')
def m_oncecell_set(c, p, v):
    ip = c.ip
    cell = deref(ip, p)
    if variant(ip, cell.fields[0], 'Option') == 'Some':
        return err(ip, v)
    cell.fields[0] = some(ip, v)
    return ok(ip, unit())


@model(r'^(?:once_cell::sync::)?OnceCell::<.*>::get$|^(?:std::sync::)?OnceLock::<.*>::get$')
def m_oncecell_get(c, p):
    ip = c.ip
    cell = deref(ip, p)
    if variant(ip, cell.fields[0], 'Option') == 'Some':
        return some(ip, Ptr(p.cell, p.path + (('f', 0), ('v', 'Some'), ('f', 0))))
    return none(ip)
