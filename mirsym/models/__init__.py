"""Library models: the trusted base of mirsym.  Each model is written against the documented
contract of the std / bytes / tokio / lru / ... function it stands for."""
from . import util, core, strings, fmt, collections_, io, regex_, misc  # noqa
