"""Value model of the MIR symbolic interpreter.

Scalars are bit-vectors of the MIR width (concrete Python ints are kept concrete for speed and
are converted to z3 terms only when they meet a symbolic operand).  Aggregates are mutable Python
objects; references are (cell, path) pairs so that `&mut` aliasing behaves as in the program.
"""
import z3

PTR_W = 64

INT_TYPES = {
    'u8': (8, False), 'i8': (8, True), 'u16': (16, False), 'i16': (16, True),
    'u32': (32, False), 'i32': (32, True), 'u64': (64, False), 'i64': (64, True),
    'u128': (128, False), 'i128': (128, True), 'usize': (64, False), 'isize': (64, True),
    'bool': (1, False), 'char': (32, False),
}


def int_type(ty):
    """(width, signed) for scalar integer-like MIR types, else None."""
    return INT_TYPES.get(ty.strip())


class BV:
    """w-bit vector; v is a Python int (normalised to [0, 2^w)) or a z3 BitVecRef."""
    __slots__ = ('w', 'v')

    def __init__(self, w, v):
        self.w = w
        if isinstance(v, int):
            v &= (1 << w) - 1
        self.v = v

    @property
    def concrete(self):
        return isinstance(self.v, int)

    def z(self):
        return z3.BitVecVal(self.v, self.w) if isinstance(self.v, int) else self.v

    def sint(self):
        assert isinstance(self.v, int)
        return self.v - (1 << self.w) if self.v >> (self.w - 1) else self.v

    def __repr__(self):
        return "BV%d(%s)" % (self.w, self.v if isinstance(self.v, int) else z3.simplify(self.v))


def bv(w, v):
    if not isinstance(v, int):
        v = z3.simplify(v)
        if z3.is_bv_value(v):
            v = v.as_long()
    return BV(w, v)


def mkbool(b):
    """Python bool / z3 Bool -> BV1."""
    if isinstance(b, bool):
        return BV(1, 1 if b else 0)
    b = z3.simplify(b)
    if z3.is_true(b):
        return BV(1, 1)
    if z3.is_false(b):
        return BV(1, 0)
    return BV(1, z3.If(b, z3.BitVecVal(1, 1), z3.BitVecVal(0, 1)))


def as_cond(x):
    """BV1 -> Python bool or z3 Bool."""
    if isinstance(x, bool):
        return x
    if isinstance(x, BV):
        if x.concrete:
            return x.v != 0
        v = x.v
        # peel If(c,1,0)
        if z3.is_app_of(v, z3.Z3_OP_ITE):
            c, a, b = v.children()
            if z3.is_bv_value(a) and z3.is_bv_value(b):
                if a.as_long() == 1 and b.as_long() == 0:
                    return c
                if a.as_long() == 0 and b.as_long() == 1:
                    return z3.Not(c)
        return v != z3.BitVecVal(0, x.w)
    return x


UNIT = None


class Cell:
    """A memory cell (frame local or heap allocation)."""
    __slots__ = ('val', 'name')

    def __init__(self, val=None, name=''):
        self.val = val
        self.name = name

    def __repr__(self):
        return "Cell(%s)" % (self.name,)


class Ptr:
    """Reference / Box / raw pointer / Arc: a place = cell + projection path. Immutable."""
    __slots__ = ('cell', 'path', 'meta')

    def __init__(self, cell, path=(), meta=None):
        self.cell = cell
        self.path = tuple(path)
        self.meta = meta

    def __repr__(self):
        return "Ptr(%s%s)" % (self.cell.name, ''.join('/' + str(p[1]) for p in self.path))


class Agg:
    """struct / tuple / array value (mutable list of fields)."""
    __slots__ = ('fields', 'ty', 'names')

    def __init__(self, fields, ty=None, names=None):
        self.fields = list(fields)
        self.ty = ty
        self.names = names

    def __repr__(self):
        return "Agg<%s>%r" % (self.ty, self.fields)


class EnumV:
    """enum value: discriminant (BV) + per-variant payload lists."""
    __slots__ = ('discr', 'variants', 'ty')

    def __init__(self, discr, variants=None, ty=None):
        self.discr = discr
        self.variants = variants if variants is not None else {}
        self.ty = ty

    def __repr__(self):
        return "Enum<%s>(%r, %r)" % (self.ty, self.discr, self.variants)


class Seq:
    """Owned sequence: String / Vec<T> / BytesMut / [T] / str backing store."""
    __slots__ = ('items', 'kind')

    def __init__(self, items, kind='vec'):
        self.items = list(items)
        self.kind = kind

    def __repr__(self):
        if all(isinstance(x, BV) and x.concrete and x.w == 8 for x in self.items):
            return "Seq<%s>(%r)" % (self.kind, bytes(x.v for x in self.items))
        return "Seq<%s>%r" % (self.kind, self.items)


class SeqView:
    """Borrowed sub-slice of a Seq (writes go through)."""
    __slots__ = ('base', 'start', 'n')

    def __init__(self, base, start, n):
        while isinstance(base, SeqView):
            start += base.start
            base = base.base
        self.base = base
        self.start = start
        self.n = n

    @property
    def items(self):
        return self.base.items[self.start:self.start + self.n]

    @property
    def kind(self):
        return self.base.kind

    def __repr__(self):
        return "View(%r)" % (Seq(self.items, self.kind),)


class Opaque:
    """A value the interpreter does not look into (formatter arguments, havoced results...)."""
    __slots__ = ('ty', 'tag', 'data')

    def __init__(self, ty='', tag='', data=None):
        self.ty = ty
        self.tag = tag
        self.data = data

    def __repr__(self):
        return "Opaque(%s,%s)" % (self.ty, self.tag)


class FnItem:
    __slots__ = ('name',)

    def __init__(self, name):
        self.name = name

    def __repr__(self):
        return "FnItem(%s)" % self.name


class Closure:
    """closure or coroutine object: captured upvars + (for coroutines) state and saved locals."""
    __slots__ = ('tag', 'upvars', 'names', 'fn', 'state', 'saved', 'is_coroutine')

    def __init__(self, tag, upvars, names, fn, is_coroutine):
        self.tag = tag
        self.upvars = list(upvars)
        self.names = names
        self.fn = fn
        self.state = BV(32, 0)
        self.saved = {}          # variant name -> {idx: value}
        self.is_coroutine = is_coroutine

    def __repr__(self):
        return "Closure(%s state=%r)" % (self.fn, self.state)


class MapV:
    """HashMap / BTreeMap / HashSet / LruCache modelled as an association list (insertion order;
    LruCache keeps most-recently-used last)."""
    __slots__ = ('entries', 'kind', 'cap')

    def __init__(self, kind='hashmap', entries=None, cap=None):
        self.entries = list(entries) if entries else []   # list of [key, value]
        self.kind = kind
        self.cap = cap

    def __repr__(self):
        return "Map<%s>%r" % (self.kind, self.entries)


def clone_value(v):
    """Copy of a by-value MIR value.  Aggregates are copied structurally; model objects (Seq, MapV),
    pointers and scalars are shared (they are immutable, or the copy is really a move)."""
    if isinstance(v, Agg):
        return Agg([clone_value(f) for f in v.fields], v.ty, v.names)
    if isinstance(v, EnumV):
        return EnumV(v.discr, {k: [clone_value(f) for f in fs] for k, fs in v.variants.items()}, v.ty)
    return v


def deep_clone(v, memo=None):
    """Clone for `Clone::clone` models: copies owned containers too (not through pointers,
    except Box-like owning pointers are not distinguished -- Arc/Rc clones share by design)."""
    if isinstance(v, Agg):
        return Agg([deep_clone(f) for f in v.fields], v.ty, v.names)
    if isinstance(v, EnumV):
        return EnumV(v.discr, {k: [deep_clone(f) for f in fs] for k, fs in v.variants.items()}, v.ty)
    if isinstance(v, Seq):
        return Seq([deep_clone(x) for x in v.items], v.kind)
    if isinstance(v, SeqView):
        return Seq([deep_clone(x) for x in v.items], v.kind)
    if isinstance(v, MapV):
        return MapV(v.kind, [[deep_clone(k), deep_clone(x)] for k, x in v.entries], v.cap)
    return v
