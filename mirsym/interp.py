"""Symbolic interpreter for rustc MIR with an SMT back end (z3).

Exploration is by deterministic re-execution with a decision prefix: every symbolic branch asks the
solver which sides are feasible under the current path condition, follows one and queues the other.
"""
import re, time, sys
import z3
from . import mirparse as P
from .mirparse import Unsupported
from .values import *


class PathEnd(Exception):
    pass


class Panic(PathEnd):
    def __init__(self, site, msg):
        PathEnd.__init__(self, "%s: %s" % (site, msg))
        self.site = site
        self.msg = msg


class Infeasible(PathEnd):
    pass


class StopPath(PathEnd):
    """Harness-requested early stop (e.g. interpreter reached a designated call)."""
    def __init__(self, tag, data=None):
        PathEnd.__init__(self, tag)
        self.tag = tag
        self.data = data


class Inconclusive(Exception):
    """Something the encoder cannot handle: never reported as pass."""


MODELS = []          # (compiled regex, handler)


def model(pattern):
    rx = re.compile(pattern)

    def deco(f):
        MODELS.append((rx, f))
        return f
    return deco


def unescape(s, is_bytes=False):
    """Rust debug-escaped literal body -> list of byte ints."""
    out = bytearray()
    i = 0
    n = len(s)
    while i < n:
        c = s[i]
        if c == '\\':
            d = s[i + 1]
            if d == 'n':
                out.append(10); i += 2
            elif d == 'r':
                out.append(13); i += 2
            elif d == 't':
                out.append(9); i += 2
            elif d == '0':
                out.append(0); i += 2
            elif d in '\\\'"':
                out.append(ord(d)); i += 2
            elif d == 'x':
                out.append(int(s[i + 2:i + 4], 16)); i += 4
            elif d == 'u':
                j = s.index('}', i)
                out.extend(chr(int(s[i + 3:j], 16)).encode('utf8')); i = j + 1
            else:
                raise Unsupported("escape \\" + d)
        else:
            out.extend(c.encode('utf8', 'surrogateescape'))
            i += 1
    return list(out)


def strip_generics(path):
    """Remove `::<...>` groups and `<...>` generic args from a path string (not leading `<X as Y>`)."""
    out = []
    i = 0
    n = len(path)
    while i < n:
        if path.startswith('::<', i):
            j = P.match_close(path, i + 2)
            i = j + 1
            continue
        out.append(path[i])
        i += 1
    return ''.join(out)


def last_seg(ty):
    """Normalise a type/path: strip module paths from every identifier path, drop lifetimes."""
    ty = re.sub(r"'[a-z_][a-z0-9_]*\b ?", '', ty)
    ty = re.sub(r'\bfor<> ?', '', ty)
    ty = re.sub(r'(?:[A-Za-z_][A-Za-z0-9_]*::)+(?=[A-Za-z_{<])', '', ty)
    return ty.replace(' ', '')


class Program:
    """Parsed MIR + source info + name resolution."""

    def __init__(self, funcs, src):
        self.allocs = funcs.pop('$allocs', {})
        self.statics = {}       # static name -> Function (initializer)
        self.funcs = funcs
        self.src = src
        self.by_key = {}        # 'Type::method' / '<Type as Trait>::method' / 'free_fn' -> [Function]
        self.closures = {}      # parent fn name -> {k: Function}
        self.by_span = {}       # 'src/x.rs:L:C: L:C' -> Function (closure / coroutine bodies)
        self.impl_of = {}       # def name -> (self, trait)
        self.consts = {}
        self._index()

    _impl_rx = re.compile(r'<impl at ([^:>]+):(\d+):(\d+): (\d+):(\d+)>')

    def _index(self):
        for name, fn in self.funcs.items():
            if fn.kind != 'fn':
                self.consts[name] = fn
                if fn.kind == 'static':
                    self.statics[name] = fn
                continue
            m = re.search(r'::\{closure#(\d+)\}$', name)
            if m:
                parent = name[:m.start()]
                self.closures.setdefault(parent, {})[int(m.group(1))] = fn
                if fn.params:
                    sm = re.search(r'\{(?:closure|async block|coroutine|async closure)@([^}]*?)(?: \(#\d+\))?\}', fn.params[0][1])
                    if sm:
                        self.by_span.setdefault(sm.group(1), []).append(fn)
                continue
            keys = self.keys_for_def(name)
            for k in dict.fromkeys(keys):
                lst = self.by_key.setdefault(k, [])
                if fn not in lst:
                    lst.append(fn)

    def keys_for_def(self, name):
        # name like  mod::sub::<impl at F:L:C: L:C>::method   or   mod::free_fn  or mod::_::<impl ..>::m
        keys = []
        ms = list(self._impl_rx.finditer(name))
        method = name.rsplit('::', 1)[-1] if '::' in name else name
        if ms:
            m = ms[-1]
            tail = name[m.end():]
            if tail.count('::') != 1:
                # nested items inside a method of an impl: treat like free fn with full name
                keys.append(last_seg(self._impl_rx.sub('', name)))
                return keys
            info = self.src.impl_at(m.group(1), int(m.group(2)), int(m.group(3)), int(m.group(4)), int(m.group(5)))
            if info is None:
                return keys
            st, tr = info
            self.impl_of[name] = info
            stn = last_seg(st)
            stn_bare = re.sub(r'<.*>$', '', stn)
            if tr is None:
                keys.append('%s::%s' % (stn_bare, method))
            else:
                trn = last_seg(tr)
                keys.append('<%s as %s>::%s' % (stn, trn, method))
                keys.append('<%s as %s>::%s' % (stn_bare, trn, method))
                if '<' not in trn:
                    keys.append('%s::%s' % (stn_bare, method))
        else:
            keys.append(name)
            keys.append(method)
        return keys

    def coroutine_body(self, fn_name):
        return self.closures.get(fn_name, {}).get(0)

    def lookup(self, callee):
        """Resolve a callee string from a call site to a list of candidate Functions."""
        c = strip_generics(callee).strip()
        cands = []
        if c.startswith('<'):
            k = P.match_close(c, 0)
            inner = c[1:k]
            method = c[k + 1:].lstrip(':')
            j, st = P.scan(inner, 0, (' as ',))
            if st is not None:
                ty = last_seg(inner[:j])
                tr = last_seg(inner[j + 4:])
                ty_b = re.sub(r'<.*>$', '', ty)
                keys = ['<%s as %s>::%s' % (ty, tr, method)]
                if '<' not in tr:
                    keys.append('<%s as %s>::%s' % (ty_b, tr, method))
                else:
                    # trait with type arguments (From<T>, TryFrom<T>, PartialEq<T> ...): the arguments select the impl
                    keys.append('<%s as %s>::%s' % (ty_b, tr, method))
                for key in keys:
                    if key in self.by_key:
                        cands = self.by_key[key]
                        break
            else:
                ty_b = re.sub(r'<.*>$', '', last_seg(inner))
                cands = self.by_key.get('%s::%s' % (ty_b, method), [])
        else:
            if c in self.funcs and self.funcs[c].kind == 'fn':
                return [self.funcs[c]]
            segs = c.split('::')
            if len(segs) >= 2:
                key = '%s::%s' % (re.sub(r'<.*>$', '', segs[-2]), segs[-1])
                cands = self.by_key.get(key, [])
            if not cands:
                cands = [f for f in self.by_key.get(segs[-1], []) if '<impl at' not in f.name and
                         (f.name == c or f.name.endswith('::' + c) or c.endswith('::' + f.name) or len(segs) == 1)]
        return cands


class Frame:
    __slots__ = ('fn', 'locals', 'depth')

    def __init__(self, fn, depth):
        self.fn = fn
        self.locals = {}
        self.depth = depth


class Stats:
    def __init__(self):
        self.queries = 0
        self.sat = 0
        self.unsat = 0
        self.unknown = 0
        self.solver_s = 0.0
        self.paths = 0
        self.steps = 0
        self.models_hit = {}
        self.havoced = {}
        self.functions = {}      # def name -> text hash

    def merge(self, o):
        self.queries += o.queries; self.sat += o.sat; self.unsat += o.unsat; self.unknown += o.unknown
        self.solver_s += o.solver_s; self.paths += o.paths; self.steps += o.steps
        for k, v in o.models_hit.items():
            self.models_hit[k] = self.models_hit.get(k, 0) + v
        for k, v in o.havoced.items():
            self.havoced[k] = self.havoced.get(k, 0) + v
        self.functions.update(o.functions)


class Interp:
    """One exploration (all paths of one harness)."""

    MAX_STEPS = 400000
    MAX_BLOCK_VISITS = 4000

    def __init__(self, program, seed=0, timeout_ms=60000, havoc=True, name=''):
        self.prog = program
        self.name = name
        self.stats = Stats()
        self.solver = z3.Solver()
        self.solver.set('timeout', timeout_ms)
        self.solver.set('random_seed', seed & 0x7fffffff)
        self.havoc_ok = havoc
        self.worklist = []
        self.overrides = []     # harness-provided (regex, handler) tried before MODELS
        self.stop_calls = []    # regexes: reaching such a call raises StopPath
        # per-path state
        self.prefix = []
        self.pos = 0
        self.decisions = []
        self.decided = {}
        self._keep = []
        self.pc = []
        self.fresh_n = 0
        self.symbols = {}
        self.path_log = []
        self.depth = 0
        self.steps = 0
        self.promoted_cache = {}
        self.env = {}           # harness scratch (io scripts, logs ...)
        self.trace_on = False

    # ---------------------------------------------------------------- solver plumbing
    def _check(self, *extra):
        t = time.time()
        self.solver.push()
        for e in extra:
            self.solver.add(e)
        r = self.solver.check()
        self.solver.pop()
        self.stats.solver_s += time.time() - t
        self.stats.queries += 1
        if r == z3.sat:
            self.stats.sat += 1
        elif r == z3.unsat:
            self.stats.unsat += 1
        else:
            self.stats.unknown += 1
            raise Inconclusive("solver returned unknown (%s) in %s" % (self.solver.reason_unknown(), self.name))
        return r == z3.sat

    def assume(self, cond):
        cond = as_cond(cond)
        if cond is True:
            return
        if cond is False:
            raise Infeasible("assume(false)")
        cond = z3.simplify(cond)
        if z3.is_true(cond):
            return
        if z3.is_false(cond):
            raise Infeasible("assumption infeasible")
        # known already?
        conj = [cond]
        flat = []
        while conj:
            c = conj.pop()
            if z3.is_and(c):
                conj.extend(c.children())
            else:
                flat.append(c)
        if all(self.decided.get(c.get_id()) is True for c in flat):
            return
        if any(self.decided.get(c.get_id()) is False for c in flat):
            raise Infeasible("assumption contradicts known fact")
        # inside the replayed prefix the same assumption was already found feasible on the parent path
        if not (self.pos < len(self.prefix)) and not self._check(cond):
            raise Infeasible("assumption infeasible")
        self.pc.append(cond)
        self.solver.add(cond)
        self._learn(cond)

    def _learn(self, cond):
        """Record atoms that are now known (cheap syntactic cache used by branch())."""
        stack = [cond]
        while stack:
            c = stack.pop()
            if z3.is_and(c):
                stack.extend(c.children())
                continue
            self._keep.append(c)
            self.decided[c.get_id()] = True
            if z3.is_not(c):
                self.decided[c.arg(0).get_id()] = False

    def valuation(self, conds, label=''):
        """Truth values (tuple of bools) of several conditions at once, forking over every feasible
        valuation.  Model-guided: costs (#feasible valuations + 1) solver queries instead of 2 per condition."""
        cs = []
        for c in conds:
            c = as_cond(c)
            if not isinstance(c, bool):
                c = z3.simplify(c)
                if z3.is_true(c):
                    c = True
                elif z3.is_false(c):
                    c = False
                else:
                    k = self.decided.get(c.get_id())
                    if k is not None:
                        c = k
            cs.append(c)
        sym = [i for i, c in enumerate(cs) if not isinstance(c, bool)]
        if not sym:
            return tuple(cs)
        if self.pos < len(self.prefix):
            val = self.prefix[self.pos]
        else:
            found = []
            self.solver.push()
            try:
                while True:
                    t = time.time()
                    r = self.solver.check()
                    self.stats.solver_s += time.time() - t
                    self.stats.queries += 1
                    if r == z3.unsat:
                        self.stats.unsat += 1
                        break
                    if r != z3.sat:
                        self.stats.unknown += 1
                        raise Inconclusive("solver unknown in valuation (%s)" % self.name)
                    self.stats.sat += 1
                    m = self.solver.model()
                    v = tuple(bool(z3.is_true(m.eval(cs[i], True))) for i in sym)
                    found.append(v)
                    self.solver.add(z3.Not(z3.And(*[cs[i] if b else z3.Not(cs[i]) for i, b in zip(sym, v)])))
                    if len(found) > 4096:
                        raise Inconclusive("too many valuations")
            finally:
                self.solver.pop()
            if not found:
                raise Infeasible("no valuation")
            val = found[0]
            for other in found[1:]:
                self.worklist.append(self.decisions + [other])
        self.pos += 1
        self.decisions.append(val)
        for i, b in zip(sym, val):
            c = cs[i] if b else z3.Not(cs[i])
            self.pc.append(c)
            self.solver.add(c)
            self.decided[cs[i].get_id()] = b
            self._keep.append(cs[i])
            cs[i] = b
        return tuple(cs)

    def first_true(self, conds, label=''):
        """Index of the first condition that holds (priority order), or None."""
        v = self.valuation(conds, label)
        for i, b in enumerate(v):
            if b:
                return i
        return None

    def branch(self, cond, label=''):
        """Return a Python bool for the symbolic condition, forking if both sides are feasible."""
        cond = as_cond(cond)
        if isinstance(cond, bool):
            return cond
        cond = z3.simplify(cond)
        if z3.is_true(cond):
            return True
        if z3.is_false(cond):
            return False
        cid = cond.get_id()
        known = self.decided.get(cid)
        if known is not None:
            return known
        if self.pos < len(self.prefix):
            d = self.prefix[self.pos]
        else:
            can_t = self._check(cond)
            if not can_t:
                d = False
            else:
                can_f = self._check(z3.Not(cond))
                d = True
                if can_f:
                    self.worklist.append(self.decisions + [False])
        self.pos += 1
        self.decisions.append(d)
        c = cond if d else z3.Not(cond)
        self.pc.append(c)
        self.solver.add(c)
        self.decided[cid] = d
        self._keep.append(cond)
        if z3.is_not(cond):
            self.decided[cond.arg(0).get_id()] = not d
        return d

    def choose(self, n, label=''):
        """Nondeterministic choice among n alternatives (environment / fault choice). Returns int."""
        if n <= 1:
            return 0
        v = self.fresh(8, 'choice_' + label)
        self.assume(z3.ULT(v.v, n))
        for k in range(n - 1):
            if self.branch(v.v == k):
                return k
        return n - 1

    def fresh(self, w, hint='v'):
        self.fresh_n += 1
        name = "%s!%d" % (hint, self.fresh_n)
        s = z3.BitVec(name, w)
        self.symbols[name] = s
        return BV(w, s)

    def is_sat(self, cond):
        cond = as_cond(cond)
        if isinstance(cond, bool):
            return cond
        return self._check(cond)

    def model_for(self, cond=None):
        """Return a z3 model of pc (and cond) or None."""
        self.solver.push()
        if cond is not None:
            c = as_cond(cond)
            if c is False:
                self.solver.pop()
                return None
            if c is not True:
                self.solver.add(c)
        t = time.time()
        r = self.solver.check()
        self.stats.solver_s += time.time() - t
        self.stats.queries += 1
        m = None
        if r == z3.sat:
            self.stats.sat += 1
            m = self.solver.model()
        elif r == z3.unsat:
            self.stats.unsat += 1
        else:
            self.stats.unknown += 1
            self.solver.pop()
            raise Inconclusive("solver unknown in model_for")
        self.solver.pop()
        return m

    # ---------------------------------------------------------------- exploration driver
    def explore(self, harness, max_paths=20000):
        """Run harness(ip) on every feasible path.  harness returns a result object or raises PathEnd.
        Yields (outcome, payload) per path through the callback protocol: harness itself records."""
        self.worklist = [[]]
        results = []
        while self.worklist:
            prefix = self.worklist.pop()
            self.prefix = prefix
            self.pos = 0
            self.decisions = []
            self.decided = {}
            self._keep = []
            self.pc = []
            self.fresh_n = 0
            self.symbols = {}
            self.depth = 0
            self.steps = 0
            self.promoted_cache = {}
            self.env = {}
            self.solver.push()
            try:
                try:
                    r = harness(self)
                    results.append(('ok', r))
                except Panic as p:
                    results.append(('panic', p))
                except StopPath as s:
                    results.append(('stop', s))
                except Infeasible:
                    results.append(('infeasible', None))
            finally:
                self.solver.pop()
            self.stats.paths += 1
            self.stats.steps += self.steps
            if self.stats.paths > max_paths:
                raise Inconclusive("path bound %d hit in %s" % (max_paths, self.name))
        return results

    # ---------------------------------------------------------------- types
    def place_type(self, frame, place):
        ty = frame.fn.locals.get(place.local)
        for st in place.proj:
            k = st[0]
            if k == 'field':
                ty = st[2]
            elif k == 'deref':
                ty = deref_type(ty)
            elif k in ('index', 'constidx'):
                ty = elem_type(ty)
            elif k == 'downcast':
                pass
            elif k == 'subslice':
                pass
        return ty

    def operand_type(self, frame, op):
        if op[0] in ('copy', 'move'):
            return self.place_type(frame, op[1])
        c = op[1]
        m = re.match(r'^-?\d+_([iu](?:8|16|32|64|128|size))$', c)
        if m:
            return m.group(1)
        if c in ('true', 'false'):
            return 'bool'
        if c.startswith("'"):
            return 'char'
        if c.startswith('"'):
            return '&str'
        m = re.match(r'^([iu](?:8|16|32|64|128|size))::(MAX|MIN)$', c)
        if m:
            return m.group(1)
        return None

    # ---------------------------------------------------------------- places
    def resolve(self, frame, place):
        cell = frame.locals.get(place.local)
        if cell is None:
            cell = frame.locals[place.local] = Cell(None, '_%d' % place.local)
        path = ()
        for st in place.proj:
            k = st[0]
            if k == 'deref':
                v = self.load(cell, path)
                if isinstance(v, Ptr):
                    cell, path = v.cell, v.path
                else:
                    raise Inconclusive("deref of non-pointer %r in %s (%r)" % (v, frame.fn.name, place))
            elif k == 'field':
                path = path + (('f', st[1]),)
            elif k == 'downcast':
                path = path + (('v', st[1]),)
            elif k == 'index':
                iv = frame.locals[st[1]].val
                path = path + (('i', iv),)
            elif k == 'constidx':
                path = path + (('ci', st[1], st[2]),)
            elif k == 'subslice':
                path = path + (('sub', st[1], st[2], st[3]),)
        return cell, path

    def get_child(self, val, st, create=False):
        k = st[0]
        if k == 'f':
            i = st[1]
            if isinstance(val, Agg):
                if i >= len(val.fields):
                    if create:
                        val.fields.extend([None] * (i + 1 - len(val.fields)))
                    else:
                        raise Inconclusive("field %d of %r" % (i, val))
                return val.fields[i]
            if isinstance(val, _VariantView):
                return val.get(i)
            if isinstance(val, Closure):
                return val.upvars[i]
            if isinstance(val, Ptr) and i == 0:
                # Box<T>.0 / Pin<P>.0 / Unique etc. : transparent wrappers
                return val
            if isinstance(val, (Seq, SeqView, MapV, Opaque)):
                hook = getattr(self, 'field_hook', None)
                if hook:
                    return hook(val, i)
            raise Inconclusive("field %d of %r" % (i, val))
        if k == 'v':
            if isinstance(val, EnumV):
                return _VariantView(val.variants.setdefault(st[1], []))
            if isinstance(val, Closure):
                return _VariantView(val.saved.setdefault(st[1], {}))
            raise Inconclusive("downcast %s of %r" % (st[1], val))
        if k in ('i', 'ci'):
            if k == 'i':
                idx = st[1]
            else:
                idx = BV(64, st[1])
            items = seq_items_ref(val)
            if k == 'ci' and st[2]:
                idx = BV(64, len(items) - st[1])
            if not idx.concrete:
                # symbolic index: fork over positions
                for j in range(len(items)):
                    if self.branch(idx.v == j, 'index'):
                        return items[j]
                raise Panic('index', 'index out of bounds (symbolic)')
            if idx.v >= len(items):
                raise Panic('index', 'index out of bounds: the len is %d but the index is %d' % (len(items), idx.v))
            return items[idx.v]
        raise Inconclusive("projection %r" % (st,))

    def set_child(self, val, st, new):
        k = st[0]
        if k == 'f':
            i = st[1]
            if isinstance(val, Agg):
                if i >= len(val.fields):
                    val.fields.extend([None] * (i + 1 - len(val.fields)))
                val.fields[i] = new
                return
            if isinstance(val, _VariantView):
                val.set(i, new)
                return
            if isinstance(val, Closure):
                val.upvars[i] = new
                return
            raise Inconclusive("set field %d of %r" % (i, val))
        if k in ('i', 'ci'):
            idx = st[1] if k == 'i' else BV(64, st[1])
            if isinstance(val, SeqView):
                base, off = val.base.items, val.start
                n = val.n
            else:
                base, off = seq_items_ref(val), 0
                n = len(base)
            if not idx.concrete:
                for j in range(n):
                    if self.branch(idx.v == j, 'index'):
                        base[off + j] = new
                        return
                raise Panic('index', 'index out of bounds (symbolic)')
            if idx.v >= n:
                raise Panic('index', 'index out of bounds: the len is %d but the index is %d' % (n, idx.v))
            base[off + idx.v] = new
            return
        raise Inconclusive("set projection %r" % (st,))

    def load(self, cell, path):
        v = cell.val
        for st in path:
            v = self.get_child(v, st)
        if isinstance(v, _VariantView):
            raise Inconclusive("load of bare variant view")
        return v

    def store(self, cell, path, new):
        if not path:
            cell.val = new
            return
        v = cell.val
        if v is None:
            # field-wise initialisation of an uninitialised aggregate / enum
            v = cell.val = EnumV(None) if path[0][0] == 'v' else Agg([])
        for i, st in enumerate(path[:-1]):
            nv = self.get_child(v, st, create=True)
            if nv is None:
                nxt = path[i + 1]
                nv = EnumV(None) if nxt[0] == 'v' else Agg([])
                self.set_child(v, st, nv)
            v = nv
        self.set_child(v, path[-1], new)

    def read_place(self, frame, place):
        cell, path = self.resolve(frame, place)
        return self.load(cell, path)

    def write_place(self, frame, place, val):
        cell, path = self.resolve(frame, place)
        self.store(cell, path, val)

    # ---------------------------------------------------------------- constants
    def eval_const(self, frame, c, want_ty=None):
        m = re.match(r'^(-?\d+)_([iu](?:8|16|32|64|128|size))$', c)
        if m:
            w, _ = INT_TYPES[m.group(2)]
            return BV(w, int(m.group(1)))
        if c == 'true':
            return BV(1, 1)
        if c == 'false':
            return BV(1, 0)
        if c == '()':
            return Agg([], '()')
        if c.startswith('"'):
            return self.str_const(unescape(c[1:-1]), 'str')
        if c.startswith('b"'):
            return self.str_const(unescape(c[2:-1]), 'bytes')
        if c.startswith("'"):
            b = bytes(unescape(c[1:-1])).decode('utf8')
            return BV(32, ord(b))
        if c.startswith("b'"):
            return BV(8, unescape(c[2:-1])[0])
        m = re.match(r'^([iu](?:8|16|32|64|128|size))::(MAX|MIN)$', c)
        if m:
            w, s = INT_TYPES[m.group(1)]
            if m.group(2) == 'MAX':
                return BV(w, (1 << (w - 1)) - 1 if s else (1 << w) - 1)
            return BV(w, (1 << (w - 1)) if s else 0)
        m = re.match(r'^(-?[\d.]+(?:e-?\d+)?)f(32|64)$', c)
        if m:
            return Opaque('f' + m.group(2), 'float', float(m.group(1)))
        if c.startswith('ZeroSized: '):
            c = c[len('ZeroSized: '):]
            if c.startswith('{closure@') or c.startswith('{async'):
                sm = re.search(r'@([^}]*?)(?: \(#\d+\))?\}$', c)
                if sm and sm.group(1) in self.prog.by_span:
                    cands = self.prog.by_span[sm.group(1)]
                    if len(cands) > 1:
                        cands = [f for f in cands if frame is not None and f.name.startswith(frame.fn.name + '::{closure#')]
                    if len(cands) != 1:
                        raise Inconclusive("ambiguous closure body for " + c)
                    return Closure(c, [], [], cands[0], False)
                raise Inconclusive("cannot find body for " + c)
            return FnItem(c)
        # promoted / named constants with MIR bodies
        fn = self.find_const(frame, c)
        if fn is not None:
            key = fn.name
            if key not in self.promoted_cache:
                if fn.value_text is not None:
                    self.promoted_cache[key] = self.eval_const(frame, fn.value_text, fn.ret)
                else:
                    self.promoted_cache[key] = self.call_function(fn, [])
            return self.promoted_cache[key]
        hook = getattr(self, 'const_hook', None)
        if hook:
            r = hook(self, frame, c, want_ty)
            if r is not NotImplemented:
                return r
        m = re.match(r'^\{alloc(\d+): (.*)\}$', c)
        if m:
            a = self.prog.allocs.get(int(m.group(1)))
            if a and a.get('static'):
                return self.static_ref(a['static'])
            if a and a.get('bytes') is not None and re.match(r'^&(\[u8(; \d+)?\]|str)$', m.group(2).strip()):
                return self.str_const(a['bytes'], 'bytes')
        if re.match(r'^<.* as (?:std::mem::)?SizedTypeProperties>::SIZE$', c):
            return BV(64, 1)        # only used by debug-mode null-dereference assertions (`SIZE != 0`)
        if re.match(r'^<.* as (?:std::mem::)?SizedTypeProperties>::ALIGN$', c):
            return BV(64, 1)        # only used by debug-mode alignment assertions; every model pointer is aligned
        if c.startswith('<'):
            last = strip_generics(c).rsplit('::', 1)[-1]
            if last[:1].islower() or last[:1] == '_':
                return FnItem(c)
        if c.startswith('{alloc') or c.startswith('<') or 'ALIGN' in c or 'SIZE' in c:
            return Opaque(want_ty or '', 'const:' + c)
        # fn item / ZST
        return FnItem(c)

    def find_const(self, frame, c):
        consts = self.prog.consts
        if c in consts:
            return consts[c]
        if '::promoted[' in c:
            # call sites print the trimmed item path; defs print the `<impl at ..>` path.  A promoted
            # constant always belongs to the function being executed.
            idx = c[c.rindex('::promoted['):]
            cand = frame.fn.name + idx
            if cand in consts:
                return consts[cand]
            return None
        lc = c.split('::')[-1]
        cands = [f for n, f in consts.items() if n.split('::')[-1] == lc and '::promoted[' not in n]
        if len(cands) == 1:
            return cands[0]
        if len(cands) > 1:
            own = [f for f in cands if frame is not None and frame.fn.name.startswith(f.name.rsplit('::', 1)[0] + '::')]
            if len(own) == 1:
                return own[0]
            ex = [f for f in cands if f.name == c or f.name.endswith('::' + c) or c.endswith('::' + strip_impl(f.name))]
            if len(ex) == 1:
                return ex[0]
            tys = last_seg(c).split('::')
            ex = [f for f in cands if len(tys) >= 2 and self.prog.keys_for_def(f.name) and
                  any(k.startswith(tys[-2] + '::') for k in self.prog.keys_for_def(f.name))]
            if len(ex) == 1:
                return ex[0]
            raise Inconclusive("ambiguous const " + c)
        return None

    def static_ref(self, name):
        """Pointer to the (per-path) storage of a `static`; initialised by running its initializer."""
        st = self.env.setdefault('statics', {})
        if name not in st:
            fn = self.prog.statics.get(name)
            if fn is None:
                cands = [f for n, f in self.prog.statics.items() if n.split('::')[-1] == name.split('::')[-1]]
                fn = cands[0] if len(cands) == 1 else None
            if fn is None:
                raise Inconclusive("unknown static " + name)
            cell = Cell(None, 'static:' + name)
            st[name] = cell
            cell.val = self.call_function(fn, [])
        return Ptr(st[name], ())

    def str_const(self, data, kind):
        cell = Cell(Seq([BV(8, b) for b in data], kind), 'lit')
        return Ptr(cell, ())

    def eval_operand(self, frame, op, want_ty=None):
        k = op[0]
        if k == 'copy':
            return clone_value(self.read_place(frame, op[1]))
        if k == 'move':
            return self.read_place(frame, op[1])
        return self.eval_const(frame, op[1], want_ty)

    # ---------------------------------------------------------------- scalar ops
    def binop(self, op, a, b, signed, site):
        if not isinstance(a, BV) or not isinstance(b, BV):
            if op in ('Eq', 'Ne') and isinstance(a, Ptr) and isinstance(b, Ptr):
                eq = a.cell is b.cell and a.path == b.path
                return BV(1, int(eq if op == 'Eq' else not eq))
            if op == 'Offset':
                return ptr_offset(a, b)
            raise Inconclusive("binop %s on %r, %r at %s" % (op, a, b, site))
        w = a.w
        if op in ('Shl', 'Shr', 'ShlUnchecked', 'ShrUnchecked'):
            # rhs may have a different width
            if b.concrete:
                sh = b.v if not (b.w <= 64 and False) else b.v
                sh = sh & (w - 1) if op in ('Shl', 'Shr') else sh
                if a.concrete:
                    if op.startswith('Shl'):
                        return BV(w, a.v << sh)
                    return BV(w, (a.sint() >> sh) if signed else (a.v >> sh))
                zb = z3.BitVecVal(sh, w)
            else:
                zb = b.v
                if b.w < w:
                    zb = z3.ZeroExt(w - b.w, zb)
                elif b.w > w:
                    zb = z3.Extract(w - 1, 0, zb)
                zb = zb & z3.BitVecVal(w - 1, w)
            za = a.z()
            if op.startswith('Shl'):
                return bv(w, za << zb)
            return bv(w, (za >> zb) if signed else z3.LShR(za, zb))
        if a.w != b.w:
            raise Inconclusive("binop width mismatch %s %r %r at %s" % (op, a, b, site))
        if a.concrete and b.concrete:
            x, y = (a.sint(), b.sint()) if signed else (a.v, b.v)
            if op in ('Add', 'AddUnchecked'):
                return BV(w, x + y)
            if op in ('Sub', 'SubUnchecked'):
                return BV(w, x - y)
            if op in ('Mul', 'MulUnchecked'):
                return BV(w, x * y)
            if op == 'BitXor':
                return BV(w, a.v ^ b.v)
            if op == 'BitAnd':
                return BV(w, a.v & b.v)
            if op == 'BitOr':
                return BV(w, a.v | b.v)
            if op == 'Eq':
                return BV(1, int(a.v == b.v))
            if op == 'Ne':
                return BV(1, int(a.v != b.v))
            if op == 'Lt':
                return BV(1, int(x < y))
            if op == 'Le':
                return BV(1, int(x <= y))
            if op == 'Gt':
                return BV(1, int(x > y))
            if op == 'Ge':
                return BV(1, int(x >= y))
            if op in ('Div', 'Rem'):
                if y == 0:
                    raise Panic(site, 'division by zero')
                q = abs(x) // abs(y)
                if (x < 0) != (y < 0):
                    q = -q
                r = x - q * y
                return BV(w, q if op == 'Div' else r)
            if op in ('AddWithOverflow', 'SubWithOverflow', 'MulWithOverflow'):
                r = {'A': x + y, 'S': x - y, 'M': x * y}[op[0]]
                lo, hi = ((-(1 << (w - 1)), (1 << (w - 1)) - 1) if signed else (0, (1 << w) - 1))
                return Agg([BV(w, r), BV(1, int(r < lo or r > hi))])
            if op == 'Cmp':
                return EnumV(BV(8, -1 if x < y else (1 if x > y else 0)), {}, 'Ordering')
            raise Inconclusive("binop " + op)
        za, zb = a.z(), b.z()
        if op in ('Add', 'AddUnchecked'):
            return bv(w, za + zb)
        if op in ('Sub', 'SubUnchecked'):
            return bv(w, za - zb)
        if op in ('Mul', 'MulUnchecked'):
            return bv(w, za * zb)
        if op == 'BitXor':
            return bv(w, za ^ zb)
        if op == 'BitAnd':
            return bv(w, za & zb)
        if op == 'BitOr':
            return bv(w, za | zb)
        if op == 'Eq':
            return mkbool(za == zb)
        if op == 'Ne':
            return mkbool(za != zb)
        if op == 'Lt':
            return mkbool(za < zb if signed else z3.ULT(za, zb))
        if op == 'Le':
            return mkbool(za <= zb if signed else z3.ULE(za, zb))
        if op == 'Gt':
            return mkbool(za > zb if signed else z3.UGT(za, zb))
        if op == 'Ge':
            return mkbool(za >= zb if signed else z3.UGE(za, zb))
        if op in ('Div', 'Rem'):
            hook = getattr(self, 'divrem_hook', None)
            if hook:
                r = hook(self, op, a, b, signed)
                if r is not None:
                    return r
            if signed:
                return bv(w, za / zb if op == 'Div' else z3.SRem(za, zb))
            return bv(w, z3.UDiv(za, zb) if op == 'Div' else z3.URem(za, zb))
        if op in ('AddWithOverflow', 'SubWithOverflow', 'MulWithOverflow'):
            if op[0] == 'A':
                r = za + zb
                ov = z3.Not(z3.BVAddNoOverflow(za, zb, signed)) if not signed else \
                    z3.Or(z3.Not(z3.BVAddNoOverflow(za, zb, True)), z3.Not(z3.BVAddNoUnderflow(za, zb)))
            elif op[0] == 'S':
                r = za - zb
                ov = z3.Not(z3.BVSubNoUnderflow(za, zb, signed)) if not signed else \
                    z3.Or(z3.Not(z3.BVSubNoOverflow(za, zb)), z3.Not(z3.BVSubNoUnderflow(za, zb, True)))
            else:
                r = za * zb
                ov = z3.Not(z3.BVMulNoOverflow(za, zb, signed)) if not signed else \
                    z3.Or(z3.Not(z3.BVMulNoOverflow(za, zb, True)), z3.Not(z3.BVMulNoUnderflow(za, zb)))
            return Agg([bv(w, r), mkbool(ov)])
        if op == 'Cmp':
            lt = (za < zb) if signed else z3.ULT(za, zb)
            return EnumV(bv(8, z3.If(lt, z3.BitVecVal(255, 8), z3.If(za == zb, z3.BitVecVal(0, 8), z3.BitVecVal(1, 8)))), {}, 'Ordering')
        raise Inconclusive("binop " + op)

    def cast(self, v, src_ty, dst_ty, kind, site):
        if kind in ('IntToInt',):
            it = int_type(dst_ty)
            if it is None or not isinstance(v, BV):
                raise Inconclusive("cast %s -> %s of %r at %s" % (src_ty, dst_ty, v, site))
            w = it[0]
            st = int_type(src_ty) if src_ty else None
            signed = st[1] if st else False
            if v.w == w:
                return v
            if v.w > w:
                return BV(w, v.v) if v.concrete else bv(w, z3.Extract(w - 1, 0, v.v))
            if v.concrete:
                return BV(w, v.sint() if signed else v.v)
            return bv(w, z3.SignExt(w - v.w, v.v) if signed else z3.ZeroExt(w - v.w, v.v))
        if kind.startswith('PointerCoercion') or kind in ('Subtype', 'PtrToPtr', 'Transmute', 'FnPtrToPtr', 'PointerExposeProvenance',
                                                          'PointerWithExposedProvenance'):
            if kind == 'Transmute' and isinstance(v, BV):
                it = int_type(dst_ty)
                if it and it[0] == v.w:
                    return v
                hook = getattr(self, 'transmute_hook', None)
                if hook:
                    return hook(self, v, src_ty, dst_ty)
                raise Inconclusive("transmute %s -> %s at %s" % (src_ty, dst_ty, site))
            if 'ClosureFnPointer' in kind or 'ReifyFnPointer' in kind:
                return v
            if kind == 'Transmute' and isinstance(v, Ptr) and int_type(dst_ty):
                return BV(int_type(dst_ty)[0], 0x1000)      # opaque, non-null, aligned address
            return v
        raise Inconclusive("cast kind %s (%s -> %s) at %s" % (kind, src_ty, dst_ty, site))

    # ---------------------------------------------------------------- rvalues
    def eval_rvalue(self, frame, rv, dest_ty, site):
        k = rv[0]
        if k == 'use':
            return self.eval_operand(frame, rv[1], dest_ty)
        if k == 'ref' or k == 'rawptr':
            cell, path = self.resolve(frame, rv[1])
            return Ptr(cell, path)
        if k == 'binop':
            a = self.eval_operand(frame, rv[2])
            b = self.eval_operand(frame, rv[3])
            ty = self.operand_type(frame, rv[2])
            it = int_type(ty) if ty else None
            signed = it[1] if it else False
            return self.binop(rv[1], a, b, signed, site)
        if k == 'unop':
            a = self.eval_operand(frame, rv[2])
            if rv[1] == 'Not':
                if isinstance(a, BV):
                    if a.concrete:
                        return BV(a.w, ~a.v)
                    if a.w == 1:
                        return mkbool(z3.Not(as_cond(a)))
                    return bv(a.w, ~a.v)
            if rv[1] == 'Neg':
                if a.concrete:
                    return BV(a.w, -a.v)
                return bv(a.w, -a.v)
            if rv[1] == 'PtrMetadata':
                return BV(64, self.seq_len(a))
            raise Inconclusive("unop %s %r" % (rv[1], a))
        if k == 'cast':
            v = self.eval_operand(frame, rv[1])
            return self.cast(v, self.operand_type(frame, rv[1]), rv[2], rv[3], site)
        if k == 'discr':
            v = self.read_place(frame, rv[1])
            w = (int_type(dest_ty) or (64, True))[0]
            return self.discriminant(v, w)
        if k == 'tuple':
            return Agg([self.eval_operand(frame, o) for o in rv[1]], 'tuple')
        if k == 'array':
            return Seq([self.eval_operand(frame, o) for o in rv[1]], 'array')
        if k == 'repeat':
            v = self.eval_operand(frame, rv[1])
            m = re.match(r'^(?:const )?(\d+)_usize$', rv[2])
            if not m:
                raise Inconclusive("repeat count " + rv[2])
            return Seq([clone_value(v) for _ in range(int(m.group(1)))], 'array')
        if k == 'len':
            v = self.read_place(frame, rv[1])
            return BV(64, len(seq_items_ref(v)))
        if k == 'adt':
            return self.make_adt(frame, rv[1], rv[2], rv[3], dest_ty)
        if k == 'closure':
            return self.make_closure(frame, rv[1], rv[2], dest_ty)
        if k == 'shallow_box':
            return self.eval_operand(frame, rv[1])
        raise Inconclusive("rvalue kind " + k)

    def discriminant(self, v, w):
        if isinstance(v, EnumV):
            d = v.discr
            if d is None:
                raise Inconclusive("discriminant of uninitialised enum")
            if d.w == w:
                return d
            if d.concrete:
                return BV(w, d.sint())
            return bv(w, z3.SignExt(w - d.w, d.v) if w > d.w else z3.Extract(w - 1, 0, d.v))
        if isinstance(v, Closure):
            return BV(w, v.state.v)
        raise Inconclusive("discriminant of %r" % (v,))

    def enum_info(self, tyname):
        from .srcinfo import LIB_ENUMS
        if tyname in self.prog.src.enums:
            return [(n, d) for n, d, f in self.prog.src.enums[tyname]]
        if tyname in LIB_ENUMS:
            return LIB_ENUMS[tyname]
        return None

    def variant_discr(self, tyname, variant):
        info = self.enum_info(tyname)
        if info is None:
            raise Inconclusive("unknown enum type %s (variant %s)" % (tyname, variant))
        for n, d in info:
            if n == variant:
                return d
        raise Inconclusive("unknown variant %s::%s" % (tyname, variant))

    def make_enum(self, tyname, variant, fields=()):
        return EnumV(BV(64, self.variant_discr(tyname, variant)), {variant: list(fields)}, tyname)

    def make_adt(self, frame, path, fields, braced, dest_ty):
        vals = [self.eval_operand(frame, o) for (_, o) in fields]
        names = [n for (n, _) in fields]
        p = strip_generics(path)
        segs = p.split('::')
        # enum variant?  Type::Variant
        if len(segs) >= 3 and segs[-3] == '__tokio_select_util' and segs[-2] == 'Out':
            # the output enum tokio::select! declares: one variant `_k` per branch, then `Disabled`
            gm = re.search(r'::Out::<(.*)>::\w+$', path)
            n = len(P.split_top(gm.group(1), ',')) if gm else None
            var = segs[-1]
            if n is None:
                raise Inconclusive("select output enum " + path)
            return EnumV(BV(64, n if var == 'Disabled' else int(var[1:])), {var: vals}, 'Out')
        if len(segs) >= 2:
            tyn, var = segs[-2], segs[-1]
            info = self.enum_info(tyn)
            if info is not None and any(n == var for n, _ in info):
                return EnumV(BV(64, self.variant_discr(tyn, var)), {var: vals}, tyn)
        tyn = segs[-1]
        if tyn in self.prog.src.structs or braced or vals:
            # struct (named or tuple)
            if braced and tyn in self.prog.src.structs and self.prog.src.structs[tyn] and \
                    self.prog.src.structs[tyn] != names and set(names) == set(self.prog.src.structs[tyn]):
                raise Inconclusive("aggregate field order of %s differs from source" % tyn)
            return Agg(vals, tyn, names if braced else None)
        info = self.enum_info(tyn)
        if not vals:
            # unit struct / ZST (e.g. RangeFull, PhantomData)
            return Agg([], tyn)
        raise Inconclusive("aggregate " + path)

    def make_closure(self, frame, tag, fields, dest_ty):
        vals = [self.eval_operand(frame, o) for (_, o) in fields]
        names = [n for (n, _) in fields]
        is_co = tag.startswith('{coroutine@') or tag.startswith('{async')
        fn = None
        sm = re.search(r'@([^}]*?)(?: \(#\d+\))?\}$', tag)
        if sm and sm.group(1) in self.prog.by_span:
            cands = self.prog.by_span[sm.group(1)]
            if len(cands) > 1:
                # closures produced by a macro share the macro's span: the right one is a child of the current function
                own = [f for f in cands if f.name.startswith(frame.fn.name + '::{closure#')]
                if len(own) != 1:
                    raise Inconclusive("ambiguous closure body for " + tag + " in " + frame.fn.name)
                cands = own
            fn = cands[0]
        if fn is None and is_co:
            fn = self.prog.coroutine_body(frame.fn.name)
        if fn is None:
            raise Inconclusive("cannot find body for " + tag + " in " + frame.fn.name)
        return Closure(tag, vals, names, fn, is_co)

    def seq_len(self, v):
        if isinstance(v, Ptr):
            t = self.load(v.cell, v.path)
            return len(seq_items_ref(t))
        return len(seq_items_ref(v))

    # ---------------------------------------------------------------- statements
    def exec_statement(self, frame, fn, bb, idx, text):
        key = (bb, idx)
        st = fn._cache.get(key)
        if st is None:
            st = fn._cache[key] = P.parse_statement(text)
        k = st[0]
        if k == 'nop':
            return
        if k == 'assign':
            dest_ty = self.place_type(frame, st[1])
            v = self.eval_rvalue(frame, st[2], dest_ty, (fn.name, bb, idx))
            self.write_place(frame, st[1], v)
            return
        if k == 'setdiscr':
            cell, path = self.resolve(frame, st[1])
            v = self.load(cell, path) if cell.val is not None else None
            if isinstance(v, Closure):
                v.state = BV(32, st[2])
                return
            if isinstance(v, EnumV):
                w = v.discr.w if v.discr is not None else 64
                v.discr = BV(w, self.variant_index_to_discr(v, self.place_type(frame, st[1]), st[2]))
                return
            if v is None:
                ev = EnumV(None)
                ev.discr = BV(64, self.variant_index_to_discr(ev, self.place_type(frame, st[1]), st[2]))
                self.store(cell, path, ev)
                return
            raise Inconclusive("SetDiscriminant on %r" % (v,))
        if k == 'intrinsic':
            if st[1].startswith('assume('):
                return
            raise Inconclusive("intrinsic " + st[1])
        raise Inconclusive("statement " + text)

    def variant_index_to_discr(self, ev, ty, idx):
        tyn = last_seg(strip_generics_ty(ty or '')).split('<')[0] if ty else (ev.ty or '')
        info = self.enum_info(tyn) or (self.enum_info(ev.ty) if ev.ty else None)
        if info is None:
            return idx
        return info[idx][1]

    # ---------------------------------------------------------------- calls
    def call_function(self, fn, args):
        self.depth += 1
        if self.depth > 120:
            raise Inconclusive("call depth exceeded at " + fn.name)
        if fn.name not in self.stats.functions:
            self.stats.functions[fn.name] = fn.text_hash
        frame = Frame(fn, self.depth)
        for (n, ty), a in zip(fn.params, args):
            frame.locals[n] = Cell(a, '%s._%d' % (short(fn.name), n))
        if len(args) != len(fn.params):
            raise Inconclusive("arity mismatch calling %s with %d args" % (fn.name, len(args)))
        bb = 0
        visits = {}
        try:
            while True:
                visits[bb] = visits.get(bb, 0) + 1
                if visits[bb] > self.MAX_BLOCK_VISITS:
                    raise Inconclusive("unwinding bound hit in %s bb%d" % (fn.name, bb))
                stmts, term, cleanup = fn.blocks[bb]
                for i, s in enumerate(stmts):
                    self.exec_statement(frame, fn, bb, i, s)
                self.steps += len(stmts) + 1
                if self.steps > self.MAX_STEPS:
                    raise Inconclusive("step bound hit in " + fn.name)
                key = (bb, 'T')
                t = fn._cache.get(key)
                if t is None:
                    t = fn._cache[key] = P.parse_terminator(term)
                k = t[0]
                if k == 'goto':
                    bb = t[1]
                elif k == 'return':
                    c = frame.locals.get(0)
                    return c.val if c is not None else Agg([], '()')
                elif k == 'switch':
                    v = self.eval_operand(frame, t[1])
                    bb = self.do_switch(v, t[2], t[3], fn, bb)
                elif k == 'call':
                    bb = self.do_call(frame, fn, bb, t)
                elif k == 'drop':
                    self.do_drop(frame, t[1])
                    bb = t[2]
                elif k == 'assert':
                    c = self.eval_operand(frame, t[1])
                    cond = as_cond(c)
                    if t[2]:
                        cond = (not cond) if isinstance(cond, bool) else z3.Not(cond)
                    site = '%s bb%d' % (short(fn.name), bb)
                    if not self.branch(cond, 'assert'):
                        raise Panic(site, 'assert: ' + t[3].strip('"'))
                    bb = t[4]
                elif k == 'unreachable':
                    raise Inconclusive("reached `unreachable` in %s bb%d" % (fn.name, bb))
                elif k == 'resume':
                    raise Inconclusive("reached `resume` in %s" % fn.name)
                else:
                    raise Inconclusive("terminator " + term)
                if bb is None:
                    raise Inconclusive("diverging call returned in %s" % fn.name)
        finally:
            self.depth -= 1

    def do_switch(self, v, arms, other, fn, bb):
        if not isinstance(v, BV):
            raise Inconclusive("switchInt on %r in %s bb%d" % (v, fn.name, bb))
        if v.concrete:
            for val, tgt in arms:
                if (val & ((1 << v.w) - 1)) == v.v:
                    return tgt
            if other is None:
                raise Inconclusive("switchInt: no arm for %d in %s bb%d" % (v.v, fn.name, bb))
            return other
        for val, tgt in arms:
            if self.branch(v.v == z3.BitVecVal(val, v.w), 'switch'):
                return tgt
        if other is None:
            raise Infeasible("no otherwise arm")
        return other

    def do_drop(self, frame, place):
        hook = getattr(self, 'drop_hook', None)
        if hook:
            hook(self, frame, place)

    def find_model(self, callee):
        for rx, h in self.overrides:
            m = rx.search(callee)
            if m:
                return h, m
        for rx, h in MODELS:
            m = rx.search(callee)
            if m:
                return h, m
        return None, None

    def do_call(self, frame, fn, bb, t):
        _, dest, callee, argops, ret_bb = t
        for rx in self.stop_calls:
            if rx.search(callee):
                raise StopPath(callee, {'frame': frame, 'args': [self.eval_operand(frame, a) for a in argops]})
        dest_ty = self.place_type(frame, dest)
        args = [self.eval_operand(frame, a) for a in argops]
        if self.trace_on:
            sys.stderr.write("%s%s -> %s\n" % ('  ' * self.depth, short(fn.name), callee[:150]))
        val = self.dispatch(callee, args, dest_ty, frame, argops)
        if ret_bb is None:
            raise Inconclusive("call to diverging %s returned" % callee)
        self.write_place(frame, dest, val)
        return ret_bb

    def dispatch(self, callee, args, dest_ty, frame=None, argops=None):
        # indirect call through a value
        if callee.startswith('move _') or callee.startswith('copy _'):
            fv = self.eval_operand(frame, P.parse_operand(callee))
            return self.call_value(fv, args, dest_ty)
        h, m = self.find_model(callee)
        if h is not None:
            self.stats.models_hit[h.__name__] = self.stats.models_hit.get(h.__name__, 0) + 1
            ctx = CallCtx(self, callee, dest_ty, m, frame, argops)
            return h(ctx, *args)
        cands = self.prog.lookup(callee)
        if cands:
            target = self.pick_candidate(callee, cands, args, dest_ty, frame, argops)
            return self.call_function(target, args)
        return self.unknown_call(callee, args, dest_ty)

    def pick_candidate(self, callee, cands, args, dest_ty, frame, argops):
        cands = [c for c in cands if len(c.params) == len(args)]
        if len(cands) == 1:
            return cands[0]
        if not cands:
            raise Inconclusive("no candidate with matching arity for " + callee)
        # disambiguate by normalised signature
        want = [last_seg(self.operand_type(frame, o) or '?') for o in argops] if frame is not None else None
        wret = last_seg(dest_ty or '?')
        best = []
        for c in cands:
            ok = last_seg(c.ret) == wret
            if ok and want is not None:
                for (n, ty), w in zip(c.params, want):
                    if w != '?' and last_seg(ty) != w:
                        ok = False
            if ok:
                best.append(c)
        if len(best) == 1:
            return best[0]
        raise Inconclusive("ambiguous callee %s: %s" % (callee, [c.name for c in (best or cands)][:6]))

    def call_value(self, fv, args, dest_ty=None):
        """Call a closure / fn item value with already-evaluated args (args = tuple elements)."""
        if isinstance(fv, Ptr):
            fv = self.load(fv.cell, fv.path)
        if isinstance(fv, Closure):
            cell = Cell(fv, 'closure')
            selfarg = Ptr(cell, ())
            pty = fv.fn.params[0][1] if fv.fn.params else ''
            if not pty.startswith('&'):
                selfarg = fv
            return self.call_function(fv.fn, [selfarg] + list(args))
        if isinstance(fv, FnItem):
            return self.dispatch(fv.name, list(args), dest_ty, None, None)
        raise Inconclusive("call of non-callable %r" % (fv,))

    def unknown_call(self, callee, args, dest_ty):
        if not self.havoc_ok:
            raise Inconclusive("no MIR and no model for callee: " + callee)
        self.stats.havoced[callee] = self.stats.havoced.get(callee, 0) + 1
        return self.fresh_of_type(dest_ty, 'havoc')

    def fresh_of_type(self, ty, hint='v'):
        ty = (ty or '').strip()
        it = int_type(ty)
        if it:
            return self.fresh(it[0], hint)
        if ty == '()':
            return Agg([], '()')
        return Opaque(ty, hint)

    # ---------------------------------------------------------------- futures
    def drive(self, fut, max_polls=64):
        """Poll a coroutine value to completion; returns the Ready payload.  A Pending result is
        re-polled (models decide themselves when they return Pending)."""
        cell = Cell(fut, 'future')
        for _ in range(max_polls):
            r = self.poll(Ptr(cell, ()))
            d = r.discr
            if d.concrete and d.v == 0:
                return r.variants['Ready'][0]
            if d.concrete and d.v == 1:
                continue
            raise Inconclusive("symbolic Poll discriminant")
        raise Inconclusive("future did not complete within poll bound")

    def poll(self, ptr):
        co = self.load(ptr.cell, ptr.path)
        if not isinstance(co, Closure):
            h = getattr(self, 'poll_hook', None)
            if h:
                return h(self, co, ptr)
            if isinstance(co, Opaque) and co.ty == 'IoFuture' and co.tag == 'chan_send':
                # an awaited mpsc send: completes when the channel is closed (Err) or has room (the item is accepted); on a full
                # channel it stays Pending -- modelled as accepted after the wait, the wait itself is recorded by the model
                # (env['awaited_channels']) and is what obligations about "no waiting on this channel" look at
                from .models.io import chan_of
                from .models.util import ok as _ok, err as _err, unit as _unit
                p, item = co.data
                ch = chan_of(self, p)
                if self.branch(ch.closed.v == 1 if not ch.closed.concrete else bool(ch.closed.v), 'chan_closed'):
                    return EnumV(BV(64, 0), {'Ready': [_err(self, Opaque('SendError', 'closed'))]}, 'Poll')
                self.env.setdefault('blocked_sends', []).append(ch.name)
                ch.sent.append(item)
                return EnumV(BV(64, 0), {'Ready': [_ok(self, _unit())]}, 'Poll')
            raise Inconclusive("poll of %r" % (co,))
        pin = Agg([ptr], 'Pin')
        ctxv = Opaque('Context', 'cx')
        return self.call_function(co.fn, [pin, Ptr(Cell(ctxv, 'cx'), ())])


class CallCtx:
    """Passed to models."""
    __slots__ = ('ip', 'callee', 'dest_ty', 'm', 'frame', 'argops')

    def __init__(self, ip, callee, dest_ty, m, frame, argops):
        self.ip = ip
        self.callee = callee
        self.dest_ty = dest_ty
        self.m = m
        self.frame = frame
        self.argops = argops

    def arg_type(self, i):
        if self.frame is None or self.argops is None:
            return None
        return self.ip.operand_type(self.frame, self.argops[i])


class _VariantView:
    """Payload of one enum variant (list) or one coroutine variant (dict idx -> value)."""
    __slots__ = ('store',)

    def __init__(self, store):
        self.store = store

    def get(self, i):
        if isinstance(self.store, dict):
            return self.store.get(i)
        if i >= len(self.store):
            return None
        return self.store[i]

    def set(self, i, v):
        if isinstance(self.store, dict):
            self.store[i] = v
        else:
            if i >= len(self.store):
                self.store.extend([None] * (i + 1 - len(self.store)))
            self.store[i] = v


def seq_items_ref(v):
    if isinstance(v, Seq):
        return v.items
    if isinstance(v, SeqView):
        return v.items
    raise Inconclusive("expected sequence, got %r" % (v,))


def ptr_offset(a, b):
    raise Inconclusive("pointer offset")


def deref_type(ty):
    if ty is None:
        return None
    ty = ty.strip()
    for p in ('&mut ', '&', '*const ', '*mut '):
        if ty.startswith(p):
            t = ty[len(p):]
            t = re.sub(r"^'[a-z_]+ ", '', t)
            if t.startswith('mut '):
                t = t[4:]
            return t
    m = re.match(r'^(?:std::boxed::)?Box<(.*)>$', ty)
    if m:
        return m.group(1)
    return ty


def elem_type(ty):
    if ty is None:
        return None
    ty = ty.strip()
    if ty.startswith('['):
        inner = ty[1:-1]
        j, st = P.scan(inner, 0, ('; ',))
        return inner[:j]
    return None


def strip_generics_ty(ty):
    j = ty.find('<')
    return ty if j < 0 else ty[:j]


def strip_impl(name):
    return re.sub(r'<impl at [^>]*>::', '', name)


def short(name):
    return re.sub(r'<impl at [^>]*?(\d+):\d+: \d+:\d+>', lambda m: '<impl@%s>' % m.group(1), name)
